"""Interface I11 (conversions and tabulation): main.py's experiments_to_tuples /
experiments_to_dicts / save_experiments_csv / tabulate_experiments against
SPModel.Api, and the C20 / C21 oracles on the implementation."""
import contextlib
import csv
import io
import itertools
import json
import os

import sweetpea as sp
import sweetpea._internal.main as M
from sweetpea._internal.primitive import HiddenName

from . import designs as D
from .designs import quiet
from . import i12_oracle as O
from .i4_text import _Tmp


def exp_json(e):
    return [[k, list(v)] for k, v in e.items()]


def gen_exp(rng, keys, n, ragged=False):
    e = {}
    for k in keys:
        m = n if not ragged else max(0, n + rng.choice([0, 0, -1, 1]))
        e[k] = [rng.choice(["a", "b", "c", "x y", ""]) for _ in range(m)]
    return e


def _catch(fn):
    try:
        return {"ok": fn()}
    except KeyError:
        return {"err": "KeyError"}
    except IndexError:
        return {"err": "IndexError"}
    except ZeroDivisionError:
        return {"err": "ZeroDivisionError"}


def parse_tabulation(text, nfactors):
    """Rows of the printed table of ONE experiment: [(combo, frequency, proportion-string)]"""
    rows = []
    for line in text.splitlines():
        if " | " not in line and "frequency" not in line:
            continue
        cells = [c.strip() for c in line.split(" | ")]
        vals = [c.split(" ", 1)[1] if " " in c else "" for c in cells]
        rows.append((vals[:nfactors], int(vals[nfactors]), vals[nfactors + 1]))
    return rows


def corr_api(ctx):
    d = ctx.drv()
    rng = ctx.rng
    ctx.rules.append("I11: _experiments_to_tuples/_dicts, the rows save_experiments_csv writes (read back with "
                     "csv.reader) and the rows tabulate_experiments prints (stdout parsed) vs SPModel.Api, on "
                     "random experiment dicts (missing keys, ragged columns, duplicate keys, empty selections "
                     "included); non-trivial = at least one key and one trial")
    with _Tmp() as tmp:
        for it in range(400 if ctx.big() else 150):
            allkeys = ["f%d" % i for i in range(rng.randint(1, 4))]
            n = rng.randint(0, 5)
            exps = [gen_exp(rng, allkeys, n, ragged=(it % 5 == 4)) for _ in range(rng.randint(0, 3))]
            keys = list(allkeys)
            if it % 7 == 3:
                keys.append("missing")
            if it % 11 == 5 and keys:
                keys.append(keys[0])
            rng.shuffle(keys)
            if it % 13 == 6:
                keys = []
            ej = [exp_json(e) for e in exps]
            py = _catch(lambda: [[list(t) for t in ex] for ex in M._experiments_to_tuples(exps, keys)])
            le = d.ask({"op": "api", "m": "tuples", "exps": ej, "keys": keys})
            ctx.count("I11.tuples")
            ctx.case(("I11.tuples", repr(ej), tuple(keys)), bool(keys) and n > 0 and bool(exps))
            if py != le:
                ctx.corr_break("I11.experiments_to_tuples", {"exps": ej, "keys": keys}, py, le)
            py = _catch(lambda: [[[[k, v] for k, v in dct.items()] for dct in ex] for ex in M._experiments_to_dicts(exps, keys)])
            le = d.ask({"op": "api", "m": "dicts", "exps": ej, "keys": keys})
            ctx.count("I11.dicts")
            if py != le:
                ctx.corr_break("I11.experiments_to_dicts", {"exps": ej, "keys": keys}, py, le)
            # csv
            for i, e in enumerate(exps[:1]):
                def run_csv():
                    for f in os.listdir("."):
                        os.unlink(f)
                    M._experiments_to_csv([e], keys, "out")
                    with open("out_0.csv", newline="") as fh:
                        return [row for row in csv.reader(fh)]
                py = _catch(run_csv)
                le = d.ask({"op": "api", "m": "csv", "exp": exp_json(e), "cols": keys})
                ctx.count("I11.csv")
                if "err" in py:
                    ctx.count("I11.csv.err." + py["err"])
                if py != le:
                    ctx.corr_break("I11.save_experiments_csv", {"exp": exp_json(e), "cols": keys}, py, le)
            # tabulate
            nf = rng.randint(1, min(2, len(allkeys)))
            fnames = rng.sample(allkeys, nf)
            facs = [sp.Factor(nm, rng.sample(["a", "b", "c", "x y"], rng.randint(1, 3))) for nm in fnames]
            fj = [[f.name, [l.name for l in f.levels]] for f in facs]
            for e in exps[:1]:
                if it % 2:
                    e = json.loads(json.dumps(e))        # equal strings, other objects (a reloaded experiment)
                trials = None if it % 3 else [rng.randrange(max(n, 1)) for _ in range(rng.randint(0, 4))]
                tl = list(range(len(e[list(e.keys())[0]]))) if trials is None else trials
                buf = io.StringIO()
                def run_tab():
                    with contextlib.redirect_stdout(buf):
                        sp.tabulate_experiments(None, [e], facs, trials)
                    return [[c, f] for (c, f, _) in parse_tabulation(buf.getvalue(), nf)]
                py = _catch(run_tab)
                le = d.ask({"op": "api", "m": "tabulate", "exp": exp_json(e), "factors": fj, "trials": tl})
                ctx.count("I11.tabulate")
                ctx.case(("I11.tabulate", repr(exp_json(e)), repr(fj), tuple(tl)), bool(tl),
                         sample={"interface": "I11", "experiment": e, "factors": fj, "trials": tl, "python": py} if it == 4 else None)
                if py != le:
                    ctx.corr_break("I11.tabulate_experiments", {"exp": exp_json(e), "factors": fj, "trials": tl}, py, le)


# ------------------------------------------------------------------ oracles

def oracle_c20(ctx, budget_s):
    from . import oracles_design as OD
    ctx.rules.append("C20 oracle: generated designs (incl. weighted uncrossed factors, so that hidden factors exist); "
                     "synthesized experiments contain exactly the user-declared factor names; experiments_to_tuples / "
                     "_dicts / save_experiments_csv reproduce every cell of every trial in order")
    def reused_outer_cases():
        # one outer block object used in two combinators one after the other: the second block's experiments and
        # conversions must show exactly the factors declared for *it*
        ses, fa, fb, fc = O._sf(0, ["s1", "s2"]), O._sf(1, ["a1", "a2"]), O._sf(2, ["b1", "b2"]), O._sf(3, ["c1", "c2", "c3"])
        outer = {"k": "cross", "design": [0], "crossing": [0], "rcc": True, "cs": [], "obj": "outer"}
        in1 = {"k": "cross", "design": [1, 2], "crossing": [1, 2], "rcc": True, "cs": []}
        in2 = {"k": "cross", "design": [3], "crossing": [3], "rcc": True, "cs": []}
        firsts = [{"k": "nest", "outer": outer, "inner": in1, "cs": [], "align": None},
                  {"k": "merge", "bs": [outer, in1], "cs": [], "mode": "repeat", "align": None}]
        seconds = [{"k": "nest", "outer": outer, "inner": in2, "cs": [], "align": None}, outer,
                   {"k": "repeat", "b": outer, "cs": [{"k": "MinimumTrials", "n": 4}]}]
        for first in firsts:
            for second in seconds:
                factors = [ses, fa, fb, fc]
                built = D.Built()
                for f in factors:
                    built.factors[f["id"]] = D.build_factor({"factors": factors}, f["id"], built)
                shared = {}
                try:
                    quiet(D.build_block, {"factors": factors, "block": first}, first, built, shared)
                    blk = quiet(D.build_block, {"factors": factors, "block": second}, second, built, shared)
                except Exception:
                    continue
                case = O.Case(ctx, {"factors": factors, "block": json.loads(json.dumps(second))})
                case.regs = set()
                ctx.count("C20.reused-outer")
                yield case, blk
    with _Tmp() as tmp:
        def all_cases():
            for case, blk in reused_outer_cases():
                yield case, blk
            for case in OD.gen_cases(ctx, budget_s, composite=ctx.rng.random() < 0.5):
                yield case, case.fresh_block()
        for case, blk in all_cases():
            try:
                exps = O.synth(blk, 3, "IterateSATGen")
            except (Exception, O.CallTimeout):
                continue
            fs = {f["id"]: f for f in case.desc["factors"]}
            names = [fs[i]["name"] for i in D.block_design_ids(case.desc["block"])]
            ctx.count("C20.designs")
            if any(any(l["w"] != 1 for l in fs[i]["levels"]) for i in fs):
                ctx.count("C20.weighted")
            for e in exps:
                if set(e.keys()) != set(names) or any(isinstance(k, HiddenName) for k in e):
                    OD.report(ctx, "shape", case, "synthesize_trials returned keys %s for declared factors %s" % (
                        sorted(map(str, e.keys())), sorted(names)), {"experiment": e})
            if not exps:
                continue
            tup = sp.experiments_to_tuples(blk, exps)
            dic = sp.experiments_to_dicts(blk, exps)
            # exported twice under the same prefix (first in another order): the files must hold the last export only
            sp.save_experiments_csv(blk, exps[::-1], "o")
            sp.save_experiments_csv(blk, exps, "o")
            order = [f.name for f in blk.design if not isinstance(f.name, HiddenName)]
            for i, e in enumerate(exps):
                n = len(e[order[0]])
                want_rows = [[e[k][t] for k in order] for t in range(n)]
                if [list(r) for r in tup[i]] != want_rows:
                    OD.report(ctx, "convert", case, "experiments_to_tuples differs from the synthesized trials", {"experiment": e})
                if [[dct[k] for k in order] for dct in dic[i]] != want_rows or any(list(dct.keys()) != order for dct in dic[i]):
                    OD.report(ctx, "convert", case, "experiments_to_dicts differs from the synthesized trials", {"experiment": e})
                with open("o_%d.csv" % i, newline="") as fh:
                    rows = [r for r in csv.reader(fh)]
                if rows != [order] + [[str(v) for v in r] for r in want_rows]:
                    OD.report(ctx, "convert", case, "save_experiments_csv differs from the synthesized trials", {"experiment": e})
                if any(isinstance(k, HiddenName) or str(k).startswith("<") for k in order):
                    OD.report(ctx, "convert", case, "a hidden factor is exposed by the conversion functions", None)
            ctx.case(("C20", repr(case.desc)), True,
                     sample={"design": OD.sample_desc(case), "columns": order} if len(ctx.samples) < 3 else None)
            if ctx.failures:
                return


def oracle_c21(ctx, budget_s):
    rng = ctx.rng
    ctx.rules.append("C21 oracle: random experiments, factor selections and trial selections; the printed frequency "
                     "of every combination is recounted directly and the printed percentage equals "
                     "100*frequency/len(trials) within 1e-9")
    t_end = ctx.elapsed() + budget_s
    n = 0
    while ctx.elapsed() < t_end and n < (4000 if ctx.big() else 600):
        n += 1
        keys = ["f%d" % i for i in range(rng.randint(1, 3))]
        ntr = rng.randint(1, 8)
        lv = {k: rng.sample(["a", "b", "c", "d"] if n % 2 else ["red", "green", "blue", "dark grey"], rng.randint(1, 3)) for k in keys}
        exps = [{k: [rng.choice(lv[k] + ["zz"]) for _ in range(ntr)] for k in keys} for _ in range(rng.randint(1, 3))]
        if n % 4 < 2:
            # experiments as they come back from a file or another process: equal strings, not the level names' objects
            exps = json.loads(json.dumps(exps))
            ctx.count("C21.reloaded")
        sel = rng.sample(keys, rng.randint(1, len(keys)))
        facs = [sp.Factor(k, lv[k]) for k in sel]
        trials = None if rng.random() < 0.4 else [rng.randrange(ntr) for _ in range(rng.randint(1, 6))]
        buf = io.StringIO()
        try:
            with contextlib.redirect_stdout(buf):
                sp.tabulate_experiments(None, exps, facs, trials)
        except Exception as e:
            ctx.fail("C21: tabulate_experiments raised %r" % (e,), {"exps": exps, "factors": [[k, lv[k]] for k in sel], "trials": trials})
            return
        blocks = buf.getvalue().split("Experiment ")[1:]
        tl = list(range(ntr)) if trials is None else trials
        ctx.count("C21.oracle")
        ctx.case(("C21", repr(exps), tuple(sel), tuple(tl)), True,
                 sample={"oracle": "C21", "experiments": exps, "factors": sel, "trials": tl} if n == 3 else None)
        for e, txt in zip(exps, blocks):
            rows = parse_tabulation(txt, len(sel))
            combos = list(itertools.product(*[lv[k] for k in sel]))
            if [tuple(r[0]) for r in rows] != combos:
                ctx.fail("C21: printed combinations %s, expected %s" % ([r[0] for r in rows], combos), {"exps": exps})
                return
            for (c, f, p) in rows:
                want = sum(1 for t in tl if all(e[k][t] == c[i] for i, k in enumerate(sel)))
                if f != want or abs(float(p.rstrip("%")) - 100.0 * want / len(tl)) > 1e-9:
                    ctx.fail("C21: combination %s printed with frequency %d / %s, recount gives %d of %d trials" % (c, f, p, want, len(tl)),
                             {"exps": exps, "factors": [[k, lv[k]] for k in sel], "trials": trials})
                    return
