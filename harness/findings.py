"""Witnesses of the findings listed in /verif/known_findings.json.  Each witness
re-runs one concrete input against the current tree and says whether the
recorded wrong behaviour is (still) there.  Open findings that still fail are
printed as KNOWN-FINDING; fixed findings that fail again are violations."""
import itertools
import json

import sweetpea as sp

from . import designs as D
from . import i12_oracle as O
from . import oracles_design as OD
from . import oracles_design2 as OD2
from .common import Ctx
from .designs import quiet
from .i12_oracle import _sf, _transition


def _sub(ctx):
    c = Ctx(ctx.prop, ctx.tier, ctx.seed)
    c.driver = ctx.drv()
    return c


def _design(ctx, desc, checks, strat="IterateSATGen"):
    """Run the given design checks with region classification switched off; return the first failure text or None."""
    sub = _sub(ctx)
    case = O.Case(sub, desc)
    if not case.build():
        return "design rejected: %s" % case.reject
    case.regs = set()
    for chk in checks:
        if chk == "sound":
            OD.check_sound(sub, case, strat, 8, "witness")
        elif chk == "exhaust":
            OD.check_exhaust(sub, case, strat, "witness")
        elif chk == "exception":
            try:
                O.synth(case.fresh_block(), 3, strat)
            except O.CallTimeout:
                pass
            except Exception as e:
                return "%s raised %s: %s" % (strat, type(e).__name__, str(e)[:120])
        elif chk == "agree":
            a = OD2._exh(sub, desc)
            try:
                b = O.synth(case.fresh_block(), O.CAP_SOLUTIONS + 1, "RandomGen", timeout=40)
                b = ("ok", OD.multiset([D.exp_to_seq(desc, e)[0] for e in b]))
            except Exception as e:
                b = ("exc", type(e).__name__)
            if a[0] != b[0] or (a[0] == "ok" and set(a[1]) != set(b[1])):
                return "IterateSATGen: %s, RandomGen: %s" % (a[0] if a[0] != "ok" else "%d sequences" % len(a[1]),
                                                             b[0] if b[0] != "ok" else "%d sequences" % len(b[1]))
        elif chk == "trialcount":
            if case.geo["error"] is None and case.built.block.trials_per_sample() != case.geo["n"]:
                return "block reports %d trials, documented arithmetic gives %d" % (case.built.block.trials_per_sample(), case.geo["n"])
        elif chk == "mismatch":
            valid = case.valid_seqs() or []
            for s in valid[:3]:
                try:
                    mm = quiet(sp.sample_mismatch_experiment, case.built.block, D.seq_to_exp(desc, s))
                except Exception as e:
                    return "sample_mismatch_experiment raised %s on a valid sequence" % type(e).__name__
                if mm != {}:
                    return "sample_mismatch_experiment reports %s for a valid sequence" % (mm,)
        if sub.failures:
            return sub.failures[0]["what"]
    return None


C2, T2 = _sf(0, ["r", "g"]), _sf(1, ["x", "y"])
C3 = _sf(0, ["a", "b", "c"])


def _leaf(factors, crossing, cs, rcc=True):
    return {"factors": factors, "block": {"k": "cross", "design": [f["id"] for f in factors], "crossing": crossing, "cs": cs, "rcc": rcc}}


def _within(fid, deps, nlev_deps, tables, names):
    return {"id": fid, "name": "f%d" % fid, "window": {"deps": deps, "width": 1, "stride": 1, "start": None, "kind": "within"},
            "levels": [{"name": n, "w": 1, "table": t} for n, t in zip(names, tables)]}


# ---- witnesses -----------------------------------------------------------

def w_F1(ctx):
    from .i3_card import c10_case
    for (n, k, rel) in ((1, 2, "EQ"), (2, 3, "LT"), (1, 1, "GT")):
        r = c10_case(n, k, rel)
        if r:
            return r["what"]
    d = _leaf([C2, T2, _sf(2, ["p", "q"])], [0, 1], [{"k": "ExactlyK", "n": 8, "f": 2, "l": 0}])
    return _design(ctx, d, ["sound", "exhaust"])


def w_F2(ctx):
    for kind, k in (("AtLeastKInARow", 4), ("ExactlyKInARow", 5)):
        d = _leaf([C2, T2], [0, 1], [{"k": kind, "n": k, "f": 0, "l": 0}])
        r = _design(ctx, d, ["exception", "exhaust"])
        if r:
            return r
    return None


def w_F3(ctx):
    o, i = _sf(0, ["a", "b"]), _sf(10, ["x", "y"])
    d = {"factors": [o, i], "block": {"k": "nest", "cs": [], "align": None,
         "outer": {"k": "cross", "design": [0], "crossing": [0], "rcc": True, "cs": [{"k": "Sequential", "f": 0}]},
         "inner": {"k": "cross", "design": [10], "crossing": [10], "rcc": True, "cs": []}}}
    sub = _sub(ctx)
    case = O.Case(sub, d)
    if not case.build():
        return "rejected"
    exps = O.synth(case.fresh_block(), 10, "IterateSATGen")
    for e in exps:
        if quiet(sp.sample_mismatch_experiment, case.built.block, e) != {}:
            return "mismatch checker rejects a sequence IterateSATGen returned for a nested Sequential factor"
    r = O.synth(case.fresh_block(), 10, "RandomGen")
    if len(r) != len(exps):
        return "RandomGen returns %d sequences, IterateSATGen %d" % (len(r), len(exps))
    return None


def w_F4(ctx):
    built = D.Built()
    desc = {"factors": [C2, T2]}
    for f in desc["factors"]:
        built.factors[f["id"]] = D.build_factor(desc, f["id"], built)
    c = sp.AtMostKInARow(1, (built.factors[0], "r"))
    quiet(sp.CrossBlock, [built.factors[0]], [built.factors[0]], [c])
    b2 = quiet(sp.CrossBlock, [built.factors[0], built.factors[1]], [built.factors[0], built.factors[1]], [c])
    got = len(O.synth(b2, 100, "IterateSATGen"))
    fresh = OD2._exh(ctx, _leaf([C2, T2], [0, 1], [{"k": "AtMostKInARow", "n": 1, "f": 0, "l": 0}]))
    want = sum(fresh[1].values()) if fresh[0] == "ok" else None
    if got != want:
        return "a constraint object first given to a 2-trial block keeps that block's geometry: the 4-trial block has %d solutions, %s with a fresh constraint object" % (got, want)
    return None


def w_F5(ctx):
    import random as stdrandom
    c = sp.Factor("c", ["r", "g"])
    t = sp.ContinuousFactor("t", distribution=sp.CustomDistribution(lambda: stdrandom.random()))
    b = quiet(sp.CrossBlock, [c, t], [c], [])
    e = O.synth(b, 1, "IterateSATGen")
    quiet(sp.print_experiments, b, e)
    try:
        O.synth(b, 1, "IterateSATGen")
    except Exception as ex:
        return "synthesize_trials after print_experiments raised %s: %s" % (type(ex).__name__, str(ex)[:80])
    return None


def w_F6(ctx):
    d = {"factors": [C2], "block": {"k": "repeat", "cs": [{"k": "MinimumTrials", "n": 4}],
                                    "b": {"k": "cross", "design": [0], "crossing": [0], "rcc": True, "cs": []}}}
    r = O.synth_isolated(d, 2, "SMGen", timeout=40)
    if r[0] == "ok":
        bad = [e for e in r[1] if any(len(v) != 4 for v in e.values())]
        if bad:
            return "SMGen returns %d-trial sequences for a 4-trial Repeat block" % len(next(iter(bad[0].values())))
    return None


def w_F7(ctx):
    from .i4_text import c28_case, _Tmp
    with _Tmp() as tmp:
        return c28_case([], [{"rel": "GT", "k": 1, "vars": [1, 2, 3]}], 3, tmp)


def w_F8(ctx):
    d = {"factors": [C3], "block": {"k": "repeat", "cs": [{"k": "MinimumTrials", "n": 7}],
         "b": {"k": "cross", "design": [0], "crossing": [0], "rcc": True, "cs": [{"k": "ExactlyK", "n": 1, "f": 0, "l": 0}]}}}
    sub = _sub(ctx)
    case = O.Case(sub, d)
    if not case.build():
        return None
    sat = len(O.synth(case.fresh_block(), 400, "IterateSATGen"))
    try:
        rnd = len(O.synth(case.fresh_block(), 400, "RandomGen"))
    except Exception as e:
        rnd = type(e).__name__
    # 3 levels, 7 trials = 2 full repetitions + 1 trial: 6*6*3 = 108 sequences satisfy the block-scoped constraint
    if sat != 108 or rnd != 108:
        return "truncated last repetition with a block-scoped constraint: IterateSATGen %s, RandomGen %s sequences (108 under either reading of the truncated window)" % (sat, rnd)
    return None


def w_F9(ctx):
    dwin = {"id": 2, "name": "f2", "window": {"deps": [0], "width": 2, "stride": 2, "start": None, "kind": "window"},
            "levels": [{"name": "s", "w": 1, "table": [0, 0, 0, 0, 1, 0, 0, 0, 1]}, {"name": "d", "w": 1, "table": [1, 1, 1, 1, 0, 1, 1, 1, 0]}]}
    d = _leaf([C2, T2, dwin], [0, 1], [{"k": "AtLeastKInARow", "n": 2, "f": 2, "l": 0}])
    return _design(ctx, d, ["agree"])


def w_F10(ctx):
    # d depends on f1 (crossed) and f0 (not crossed); level "never" is matched by no input
    dd = _within(2, [1, 0], [2, 2], [[0, 0, 0, 0, 1, 0, 0, 0, 1], [0, 0, 0, 0, 0, 1, 0, 1, 0], [0] * 9], ["eq", "ne", "never"])
    dd["levels"][2]["table"] = [1, 1, 1, 1, 0, 0, 1, 0, 0]   # only windows with a missing value
    d = _leaf([C2, T2, dd], [1, 2], [], rcc=False)
    return _design(ctx, d, ["trialcount", "exhaust", "agree"])


def w_F11(ctx):
    d = _leaf([C2, T2], [0, 1], [{"k": "Pin", "idx": 0, "f": 0, "l": 0}, {"k": "Pin", "idx": 0, "f": 0, "l": 1}])
    r = O.synth_isolated(d, 2, "UniGen", timeout=60)
    if r[0] == "died":
        return "UniGen on a design without solutions terminated the interpreter (status %s)" % (r[1],)
    if r[0] == "exc":
        return "UniGen raised %s" % r[1]
    return None


def w_F12(ctx):
    from .i1_logic import c11_case
    from sweetpea._internal.logic import Not, If, Or
    for f, nxt, name in ((Not(If(If(2, 3), Not(3))), 4, "naive"), (Or([]), 1, "switching"), (Not(1), 2, "naive")):
        r = c11_case(f, nxt, name)
        if r:
            return r["what"]
    return None


def w_F13(ctx):
    w = _sf(1, ["x", "y"], [2, 1])
    leaf = _leaf([C2, w], [0], [{"k": "AtMostKInARow", "n": 1, "f": 1, "l": 0}])
    m = {"factors": leaf["factors"], "block": {"k": "merge", "bs": [leaf["block"]], "cs": [], "mode": "repeat", "align": None}}
    a, b = OD2._exh(ctx, m), OD2._exh(ctx, leaf)
    if a != b:
        return "Merge([b]) %s, b alone %s" % (a[0] if a[0] != "ok" else "%d solutions" % sum(a[1].values()),
                                             b[0] if b[0] != "ok" else "%d solutions" % sum(b[1].values()))
    return None


def w_F15(ctx):
    from sweetpea._internal.sampling_strategy.random import UCSolutionEnumerator
    color, word = _sf(0, ["r", "g", "b"]), _sf(1, ["r", "g", "b"])
    con = _within(2, [0, 1], [3, 3], [[1 if (i // 4 == i % 4 and i // 4 > 0) else 0 for i in range(16)],
                                      [1 if not (i // 4 == i % 4 and i // 4 > 0) else 0 for i in range(16)]], ["con", "inc"])
    d = {"factors": [color, word, con], "block": {"k": "repeat", "cs": [{"k": "MinimumTrials", "n": 3}],
         "b": {"k": "cross", "design": [0, 1, 2], "crossing": [0, 2], "rcc": True, "cs": []}}}
    # crossing size 6; 3 trials = a partial chunk only: the draw is not uniform over the candidate keys
    blk = D.build(d).block
    en = quiet(UCSolutionEnumerator, blk)
    n = blk.trials_per_sample()
    rounds = (n - en._preamble_size) // en.crossing_size
    leftover = (n - en._preamble_size) % en.crossing_size
    leaves = quiet(OD2.draw_tree, en, rounds, leftover, 20000)
    if leaves is not None and len({dn for _, dn in leaves}) > 1:
        ds = sorted({dn for _, dn in leaves})
        return "RandomGen's candidates are not equally likely when a partial chunk meets crossing instances with different numbers of completions: path probabilities 1/%d … 1/%d" % (ds[0], ds[-1])
    return None


def w_F16(ctx):
    f0 = _sf(0, ["a0", "a1"], [2, 2])
    f1 = _within(1, [0], [2], [[0, 0, 1], [1, 1, 0]], ["b0", "b1"])
    return _design(ctx, _leaf([f0, f1], [1], []), ["sound", "exhaust"])


def w_F18(ctx):
    f0 = _sf(0, ["a0", "a1"])
    d1 = _within(1, [0], [2], [[0, 0, 1], [1, 1, 0]], ["x", "y"])
    d2 = _within(2, [1], [2], [[0, 1, 0], [1, 0, 1]], ["p", "q"])
    return _design(ctx, _leaf([f0, d1, d2], [2], []), ["exception"], strat="RandomGen")


def w_F19(ctx):
    f = _sf(0, ["a", "b"])
    t = _transition(1, 0, 2)
    size = 3 ** 2 * 3 ** 2
    tbl = [1 if ((i // 27) % 3 == 1) == ((i // 3) % 3 == 1) else 0 for i in range(size)]
    w = {"id": 2, "name": "f2", "window": {"deps": [0, 1], "width": 2, "stride": 1, "start": None, "kind": "window"},
         "levels": [{"name": "S", "w": 1, "table": tbl}, {"name": "D", "w": 1, "table": [1 - x for x in tbl]}]}
    return _design(ctx, _leaf([f, t, w], [0, 2], []), ["agree"])


def w_F20(ctx):
    o, i1 = _sf(0, ["o1", "o2"]), _sf(10, ["i1", "i2"])
    dd = _within(11, [10], [2], [[0, 0, 1], [1, 1, 0]], ["u", "v"])
    d = {"factors": [o, i1, dd], "block": {"k": "nest", "cs": [], "align": None,
         "outer": {"k": "cross", "design": [0], "crossing": [0], "rcc": True, "cs": []},
         "inner": {"k": "cross", "design": [10, 11], "crossing": [10], "rcc": True, "cs": []}}}
    return _design(ctx, d, ["exception", "exhaust"])


def w_F21(ctx):
    f10 = _sf(10, ["a0", "a1"])
    tr = _transition(11, 10, 2)
    o = _sf(0, ["o1", "o2"])
    d = {"factors": [o, f10, tr], "block": {"k": "nest", "cs": [], "align": None,
         "outer": {"k": "cross", "design": [0], "crossing": [0], "rcc": True, "cs": []},
         "inner": {"k": "cross", "design": [10, 11], "crossing": [10], "rcc": True, "cs": [{"k": "AtMostKInARow", "n": 1, "f": 11, "l": None}]}}}
    return _design(ctx, d, ["sound", "exhaust"])


def w_F22(ctx):
    c, t, tr = C2, T2, _transition(3, 0, 2)
    d = {"factors": [c, t, tr], "block": {"k": "multicross", "design": [0, 1, 3], "crossings": [[0, 3], [1]], "cs": [], "rcc": True,
                                           "mode": "weight", "align": "post preamble"}}
    return _design(ctx, d, ["sound"])


def w_F23(ctx):
    f3 = {"id": 2, "name": "f2", "window": {"deps": [0, 1], "width": 3, "stride": 2, "start": None, "kind": "window"},
          "levels": [{"name": "d0", "w": 1, "table": [1 if i % 2 else 0 for i in range(729)]},
                     {"name": "d1", "w": 1, "table": [0 if i % 2 else 1 for i in range(729)]}]}
    return _design(ctx, _leaf([C2, T2, f3], [0], [{"k": "ExactlyK", "n": 4, "f": 2, "l": 1}]), ["exception"])


def w_F24(ctx):
    for n, k in ((6, 4), (5, 3)):
        d = _leaf([C2, T2], [0], [{"k": "MinimumTrials", "n": n}, {"k": "AtLeastKInARow", "n": k, "f": 1, "l": 0}])
        r = _design(ctx, d, ["sound", "exhaust"])
        if r:
            return r
    return None


def w_F25(ctx):
    return _design(ctx, _leaf([C2, T2], [0], []), ["exception"], strat="RandomGen") or _zero(ctx)


def _zero(ctx):
    try:
        O.synth(D.build(_leaf([C2, T2], [0], [])).block, 0, "RandomGen")
    except Exception as e:
        return "synthesize_trials(block, 0, RandomGen) raised %s" % type(e).__name__
    return None


def w_F26(ctx):
    w = _sf(0, ["a0", "a1"], [1, 2])
    return _design(ctx, _leaf([w, T2], [1], [{"k": "ExactlyK", "n": 1, "f": 0, "l": 0}]), ["mismatch"])


def w_F31(ctx):
    # two implied within-trial factors, the dependent one listed first in the design
    c = _sf(0, ["r", "g"])
    i1 = _within(1, [0], [2], [[0, 1, 0], [1, 0, 1]], ["isr", "notr"])
    i2 = _within(2, [1], [2], [[0, 1, 0], [1, 0, 1]], ["yes", "no"])
    d = {"factors": [c, i1, i2], "block": {"k": "cross", "design": [0, 2, 1], "crossing": [0], "cs": [], "rcc": True}}
    return _design(ctx, d, ["exception", "sound"]) or _design(ctx, d, ["exception"], strat="RandomGen")


def w_F32(ctx):
    # two crossed within-trial derived factors over shared sources outside the crossing: d1 = (a == b), d2 = (a is its first level)
    a, b = _sf(0, ["1", "2"]), _sf(1, ["1", "2"])
    eq = [0] * 9
    eq[4] = eq[8] = 1
    d1 = _within(2, [0, 1], [2, 2], [eq, [1 - x for x in eq]], ["eq", "ne"])
    d2 = _within(3, [0], [2], [[0, 1, 0], [1, 0, 1]], ["one", "two"])
    return _design(ctx, _leaf([a, b, d1, d2], [2, 3], []), ["exception", "sound", "exhaust"], strat="RandomGen")


def w_F33(ctx):
    # derived factor with stride 2 and an explicit start that is not the default one: the k-th application must read
    # the window ending at trial start + 2k (the SAT encoding read (k + start - default) * 2)
    for width, start, n in ((1, 1, 4), (2, 2, 5), (2, 0, 4)):
        size = 3 ** width
        t0 = [1 if k % 3 == 1 else 0 for k in range(size)]          # newest position holds level 0
        d = {"id": 1, "name": "f1", "window": {"deps": [0], "width": width, "stride": 2, "start": start, "kind": "window"},
             "levels": [{"name": "isr", "w": 1, "table": t0}, {"name": "notr", "w": 1, "table": [1 - x for x in t0]}]}
        desc = _leaf([C2, d], [0], [{"k": "MinimumTrials", "n": n}, {"k": "ExactlyK", "n": 1, "f": 1, "l": 0}])
        r = _design(ctx, desc, ["sound", "exhaust"])
        if r:
            return "width %d stride 2 start %d: %s" % (width, start, r)
    return None


def _nest_early_window():
    a, b = _sf(0, ["1", "2"]), _sf(10, ["x", "y"])
    # width 3, start 0: level p iff the oldest position exists and equals the newest
    tp = [1 if (k // 9) != 0 and (k // 9) == (k % 3) else 0 for k in range(27)]
    w = {"id": 1, "name": "f1", "window": {"deps": [0], "width": 3, "stride": 1, "start": 0, "kind": "window"},
         "levels": [{"name": "p", "w": 1, "table": tp}, {"name": "q", "w": 1, "table": [1 - x for x in tp]}]}
    return {"factors": [a, w, b], "block": {"k": "nest", "cs": [], "align": None,
            "outer": {"k": "cross", "design": [0, 1], "crossing": [0, 1], "rcc": True, "cs": []},
            "inner": {"k": "cross", "design": [10], "crossing": [10], "rcc": True, "cs": []}}}


def w_F34(ctx):
    # Nest whose outer block crosses a window factor with an early explicit start (BeforeStart alternatives):
    # the SAT samplers found no sequence at all
    d = _nest_early_window()
    return _design(ctx, d, ["exception", "exhaust"]) or _design(ctx, d, ["agree"])


def w_F35(ctx):
    # Nest whose outer block crosses a width-2 window factor with the explicit start 2: the factor has no level in
    # the first two groups (trials 0-3); RandomGen labelled group 1
    def same(a):
        return a[0] == a[-1]
    A = sp.Factor("A", ["a1", "a2"])
    Dd = sp.Factor("D", [sp.DerivedLevel("same", sp.Window(same, [A], 2, 1, 2)), sp.ElseLevel("diff")])
    S = sp.Factor("S", ["s1", "s2"])
    nb = sp.Nest(sp.CrossBlock([A, Dd], [A, Dd], []), sp.CrossBlock([S], [S], []), [], alignment=sp.AlignmentMode.POST_PREAMBLE)
    for strat in ("RandomGen", "IterateSATGen"):
        for e in O.synth(nb, 4, strat):
            for t, v in enumerate(e["D"]):
                g = t // 2
                want = "" if g < 2 else ("same" if e["A"][t] == e["A"][t - 2] else "diff")
                if v != want:
                    return "%s: D at trial %d is %r, documented %r (A = %s)" % (strat, t, v, want, " ".join(e["A"]))
    return None


def w_F36(ctx):
    # a weighted derived level in the crossing whose source is a weighted factor outside the crossing: the derived
    # level keeps its weight (crossing size 2 * (2 + 1) = 6)
    col = _sf(0, ["red", "blue"])
    size = _sf(1, ["big", "small"], [2, 1])
    kind = _within(2, [1], [2], [[0, 1, 0], [1, 0, 1]], ["isbig", "notbig"])
    kind["levels"][0]["w"] = 2
    d = _leaf([col, size, kind], [0, 2], [])
    return _design(ctx, d, ["trialcount", "sound"])


def w_F37(ctx):
    # Nest with MinimumTrials(5) over a 2 x 2 nesting: 6 trials (whole groups); adding a Pin makes the block report 5
    a, b = _sf(0, ["a1", "a2"]), _sf(10, ["b1", "b2"])
    d = {"factors": [a, b], "block": {"k": "nest", "cs": [{"k": "MinimumTrials", "n": 5}, {"k": "Pin", "idx": 0, "f": 10, "l": 0}], "align": None,
         "outer": {"k": "cross", "design": [0], "crossing": [0], "rcc": True, "cs": []},
         "inner": {"k": "cross", "design": [10], "crossing": [10], "rcc": True, "cs": []}}}
    return _design(ctx, d, ["trialcount", "sound"])


def w_F30(ctx):
    s3 = _sf(0, ["c1", "c2", "c3"])
    w = _sf(1, ["big", "small"], [2, 1])
    return _design(ctx, _leaf([s3, w], [0], [{"k": "Sequential", "f": 1}]), ["mismatch"])


def w_F28(ctx):
    b = _leaf([C2, T2], [0], [])["block"]
    lhs = {"factors": [C2, T2], "block": {"k": "multicross", "design": [0, 1], "crossings": [[0], [1]], "cs": [], "rcc": True,
                                          "mode": "repeat", "align": "parallel start"}}
    rhs = {"factors": [C2, T2], "block": {"k": "merge", "cs": [], "mode": "repeat", "align": "parallel start",
           "bs": [{"k": "cross", "design": [0, 1], "crossing": c, "cs": [], "rcc": True} for c in ([0], [1])]}}
    a, c = OD2._exh(ctx, lhs), OD2._exh(ctx, rhs)
    if a != c:
        return "MultiCrossBlock(alignment=PARALLEL_START): %s; the documented equivalent Merge of CrossBlocks: %s" % (
            a[0] if a[0] != "ok" else "%d solutions" % sum(a[1].values()), c[0] if c[0] != "ok" else "%d solutions" % sum(c[1].values()) if c[0] == "ok" else str(c[1])[:80])
    return None


def w_F29(ctx):
    # a whole crossing of (within-trial factor over an uncrossed source) x (transition), then a leftover round whose
    # length equals the number of non-complex crossing instances: MinimumTrials(7) in REPEAT mode
    s3 = _sf(0, ["x", "y", "z"])
    d = {"id": 1, "name": "f1", "window": {"deps": [0], "width": 1, "stride": 1, "start": None, "kind": "within"},
         "levels": [{"name": "isx", "w": 1, "table": [0, 1, 0, 0]}, {"name": "notx", "w": 1, "table": [0, 0, 1, 1]}]}
    rep = [1 if (k // 4) == (k % 4) and k % 4 != 0 else 0 for k in range(16)]
    tr = {"id": 2, "name": "f2", "window": {"deps": [0], "width": 2, "stride": 1, "start": None, "kind": "transition"},
          "levels": [{"name": "rep", "w": 1, "table": rep}, {"name": "sw", "w": 1, "table": [1 - x for x in rep]}]}
    desc = {"factors": [s3, d, tr], "block": {"k": "multicross", "design": [0, 1, 2], "crossings": [[1, 2]],
            "cs": [{"k": "MinimumTrials", "n": 7}], "rcc": True, "mode": "repeat", "align": "equal preamble"}}
    return _design(ctx, desc, ["exhaust"], strat="RandomGen")


WITNESS = {k[2:]: v for k, v in globals().items() if k.startswith("w_F")}


def replay(ctx, finding):
    fn = WITNESS.get(finding["id"])
    if fn is None:
        return
    try:
        what = fn(ctx)
    except O.CallTimeout:
        ctx.notes.append("witness of %s timed out" % finding["id"])
        return
    except Exception as e:
        what = "witness raised %s: %s" % (type(e).__name__, str(e)[:120])
    ctx.count("finding." + finding["id"] + (".fails" if what else ".passes"))
    if finding["status"] == "open":
        if what:
            ctx.known_hits.append("%s %s" % (finding["id"], what[:260]))
        else:
            ctx.notes.append("open finding %s no longer reproduces on its witness" % finding["id"])
    else:
        if what:
            ctx.fail("regression of repaired defect %s (%s): %s" % (finding["id"], finding["status"], what),
                     {"kind": "finding", "finding": finding["id"]})
