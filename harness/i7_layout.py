"""Interfaces I7 (variable layout of block.py vs SPModel.Layout) and I8k (the
formulas / requests the run-length constraints emit for a variable list vs
SPModel.Compile)."""
import sweetpea as sp
from sweetpea._internal.backend import BackendRequest
from sweetpea._internal.primitive import DerivedFactor

from . import designs as D
from . import i12_oracle as O
from . import oracles_design as OD
from .designs import quiet
from .i1_logic import to_json


def lblock(blk):
    fs = []
    for f in blk.act_design:
        if isinstance(f, DerivedFactor):
            w = f.first_level.window
            start, stride = w.start, w.stride
        else:
            start, stride = 0, 1
        fs.append({"nlevels": len(f.levels), "complex": bool(f.has_complex_window), "start": start, "stride": stride,
                   "sustain": blk.sustain_count(f)})
    return {"op": "layout", "factors": fs, "trials": blk.trials_per_sample()}


def py_layout(blk):
    n = blk.trials_per_sample()
    act = list(blk.act_design)
    enc = []
    for f in act:
        rows = []
        sc = blk.sustain_count(f)
        for t in range(1, n + 1):
            if f.applies_to_trial((t - 1) // sc + 1):
                rows.append([t, [blk._encode_variable(f, l, t) for l in f.levels]])
        enc.append(rows)
    vps = blk.variables_per_sample()
    dec = []
    for v in range(1, vps + 1):
        try:
            f, l = blk.decode_variable(v)
            dec.append([act.index(f), list(f.levels).index(l)])
        except Exception:
            dec.append(None)
    return {"ok": {"vpt": blk.variables_per_trial(), "grid": blk.grid_variables(), "vps": vps,
                   "first": [[blk.first_variable_for_level(f, l) for l in f.levels] for f in act],
                   "encode": enc, "decode": dec}}


def reused_block(desc):
    """The composite block of `desc` built from sub-block objects that were used on their own first: every
    sub-block is constructed bottom-up and its whole layout is read (which fills any per-factor memo) before the
    enclosing block is constructed from the same objects."""
    import copy
    from . import designs as D
    top = copy.deepcopy(desc["block"])
    n = [0]

    def tag(x):
        for k in ("b", "outer", "inner"):
            if k in x:
                x[k]["obj"] = "sub%d" % n[0]
                n[0] += 1
                tag(x[k])
        for y in x.get("bs", []):
            y["obj"] = "sub%d" % n[0]
            n[0] += 1
            tag(y)
    tag(top)
    built = D.Built()
    for f in sorted(desc["factors"], key=lambda f: f["id"]):
        built.factors[f["id"]] = D.build_factor(desc, f["id"], built)
    shared = {}

    def visit(x):
        for k in ("b", "outer", "inner"):
            if k in x:
                visit(x[k])
        for y in x.get("bs", []):
            visit(y)
        blk = quiet(D.build_block, desc, x, built, shared)
        if x is not top:
            try:
                quiet(py_layout, blk)
            except Exception:
                pass
        return blk
    return visit(top)


def corr_layout(ctx):
    d = ctx.drv()
    ctx.rules.append("I7: for generated designs (incl. Repeat/Merge/Nest and complex derived factors) "
                     "variables_per_trial, grid_variables, variables_per_sample, first_variable_for_level, "
                     "_encode_variable for every applicable (trial, factor, level) and decode_variable for every "
                     "variable vs SPModel.Layout, compared exactly")
    n = 0

    def extra_cases():
        # Nest / Repeat / Merge over a block with a preamble (a complex-window factor in the outer crossing, sustained
        # over the inner block): layout only, these designs are not judged by the reference semantics
        from . import i12_oracle as O
        A2, S2, S3 = O._sf(0, ["a1", "a2"]), O._sf(10, ["s1", "s2"]), O._sf(10, ["s1", "s2", "s3"])
        for tr in (O._transition(1, 0, 2), dict(O._transition(1, 0, 2), window={"deps": [0], "width": 2, "stride": 1, "start": 2, "kind": "window"})):
            outer = {"k": "cross", "design": [0, 1], "crossing": [0, 1], "rcc": True, "cs": []}
            for inner_f in (S2, S3):
                inner = {"k": "cross", "design": [10], "crossing": [10], "rcc": True, "cs": []}
                for align in ("post preamble", None):
                    yield O.Case(ctx, {"factors": [A2, tr, inner_f], "block": {"k": "nest", "cs": [], "align": align, "outer": outer, "inner": inner}})
            yield O.Case(ctx, {"factors": [A2, tr], "block": {"k": "repeat", "cs": [{"k": "MinimumTrials", "n": 9}], "b": outer}})

    def all_cases():
        for c in extra_cases():
            if c.build():
                ctx.count("I7.nest-preamble")
                yield c
        for c in OD.gen_cases(ctx, 20 if not ctx.big() else 120):
            yield c
    for case in all_cases():
        blk = case.fresh_block()
        req = lblock(blk)
        try:
            py = py_layout(blk)
        except Exception as e:
            py = {"err": type(e).__name__}
        le = d.ask(req)
        ctx.count("I7.layout")
        if any(f["complex"] for f in req["factors"]):
            ctx.count("I7.complex")
        if any(f["sustain"] > 1 for f in req["factors"]):
            ctx.count("I7.sustain")
        n += 1
        if py != le:
            ctx.corr_break("I7.layout", req, OD.sample_desc(case), {"python": str(py)[:600], "lean": str(le)[:600]})
            if len(ctx.corr_breaks) > 3:
                return
        if case.desc["block"]["k"] in ("repeat", "merge", "nest"):
            # the same composite, built from sub-blocks that were laid out on their own first: same layout
            try:
                blk2 = reused_block(case.desc)
                req2 = lblock(blk2)
                py2 = py_layout(blk2)
            except Exception as e:
                req2, py2 = req, {"err": type(e).__name__}
            ctx.count("I7.reused")
            if req2 != req or py2 != le:
                ctx.corr_break("I7.layout-reused", req2, OD.sample_desc(case), {"python": str(py2)[:600], "lean": str(le)[:600]})
                if len(ctx.corr_breaks) > 3:
                    return


class _StubBlock:
    """What the run-length constraints need from a block: the variable lists of the level and cnf_fn."""

    def __init__(self, var_lists):
        self.var_lists = var_lists

    def build_variable_lists(self, level, within_block=None):
        return [list(v) for v in self.var_lists]

    def cnf_fn(self, formula, fresh):
        return (formula, fresh)


def py_compile(kind, k, vars_):
    c = sp.Factor("c", ["r", "g"])
    lvl = (c, c.get_level("r"))
    stub = _StubBlock([vars_])
    br = BackendRequest(1000)
    cls = {"atmost": sp.AtMostKInARow, "atleast": sp.AtLeastKInARow, "exactlyinarow": sp.ExactlyKInARow, "exactlyk": sp.ExactlyK}[kind]
    obj = cls(k, (c, "r"))
    try:
        obj.apply_to_backend_request(stub, lvl, br)
    except (IndexError, ValueError) as e:
        return {"err": type(e).__name__}
    if kind == "atmost":
        return {"ok": [{"rel": r.comparison, "k": r.k, "vars": list(r.variables)} for r in br.ll_requests]}
    if kind == "exactlyk":
        if br.ll_requests:
            r = br.ll_requests[0]
            return {"ok": {"rel": r.comparison, "k": r.k, "vars": list(r.variables)}}
        return {"ok": "contradiction" if [to_json(x) for x in br.cnfs] == [{"and": [1, -1]}] else [to_json(x) for x in br.cnfs]}
    # one And(implications) per call of cnf_fn
    if len(br.cnfs) != 1:
        return {"ok": "unexpected number of formulas: %d" % len(br.cnfs)}
    return {"ok": [to_json(x) for x in br.cnfs[0].input_list]}


def corr_kinarow(ctx):
    d = ctx.drv()
    rng = ctx.rng
    ctx.rules.append("I8k: apply_to_backend_request of AtMostKInARow / AtLeastKInARow / ExactlyKInARow / ExactlyK "
                     "on a stub block returning a given variable list vs SPModel.Compile: emitted requests and the "
                     "implication list, compared exactly; every k in 1..7 and list length 0..9 plus random variables")
    for kind in ("atmost", "atleast", "exactlyinarow", "exactlyk"):
        for k in range(1, 8):
            for n in range(0, 10):
                for rep in range(2):
                    vars_ = list(range(1, n + 1)) if rep == 0 else sorted(rng.sample(range(1, 60), n))
                    py = py_compile(kind, k, vars_)
                    le = d.ask({"op": "compile", "m": kind, "k": k, "vars": vars_})
                    ctx.count("I8k." + kind)
                    ctx.case(("I8k", kind, k, tuple(vars_)), n > 0,
                             sample={"interface": "I8k", "class": kind, "k": k, "vars": vars_, "python": py} if (kind, k, n, rep) == ("atleast", 3, 5, 0) else None)
                    if py != le:
                        ctx.corr_break("I8k." + kind, {"k": k, "vars": vars_}, py, le)


def oracle_kinarow(ctx, budget_s):
    """Implementation-only: the emitted requests/formulas accept exactly the assignments whose runs satisfy the constraint."""
    import itertools
    from .i1_logic import ev, from_json
    ctx.rules.append("run-length oracle: for k in 1..6 and ranges of 0..8 trials, EVERY assignment of the range's "
                     "variables: the emitted requests / implications hold iff all maximal runs are <= k / >= k / == k "
                     "(ExactlyK: the count is k)")
    t_end = ctx.elapsed() + budget_s
    def runs(bits):
        out, c = [], 0
        for b in bits:
            if b:
                c += 1
            else:
                if c:
                    out.append(c)
                c = 0
        if c:
            out.append(c)
        return out
    for kind, ok in (("atmost", lambda r, k, bits: all(x <= k for x in r)), ("atleast", lambda r, k, bits: all(x >= k for x in r)),
                     ("exactlyinarow", lambda r, k, bits: all(x == k for x in r)), ("exactlyk", lambda r, k, bits: sum(bits) == k)):
        for k in range(1, 7):
            for n in range(0, 9):
                if ctx.elapsed() > t_end:
                    return
                vars_ = list(range(1, n + 1))
                out = py_compile(kind, k, vars_)
                ctx.count("kinarow.oracle." + kind)
                ctx.case(("kinarow", kind, k, n), n > 0)
                if "err" in out:
                    ctx.fail("%s(k=%d) on a range of %d trials raised %s" % (kind, k, n, out["err"]), {"kind": kind, "k": k, "n": n})
                    return
                for bits in itertools.product([False, True], repeat=n):
                    a = {i + 1: b for i, b in enumerate(bits)}
                    if kind == "atmost":
                        holds = all(sum(a[v] for v in r["vars"]) < r["k"] for r in out["ok"])
                    elif kind == "exactlyk":
                        holds = False if out["ok"] == "contradiction" else sum(a[v] for v in out["ok"]["vars"]) == out["ok"]["k"]
                    else:
                        holds = all(ev(from_json(f), a) for f in out["ok"])
                    if holds != ok(runs(bits), k, bits):
                        ctx.fail("%s(k=%d) on %d trials: assignment %s is %s by the encoding but its runs are %s" % (
                            kind, k, n, [int(b) for b in bits], "accepted" if holds else "rejected", runs(bits)), {"kind": kind, "k": k, "n": n})
                        return


# ------------------------------------------------------- I9k mismatch side

class _StubRanges:
    """A block whose only repetition window is the whole list."""

    def __init__(self, n):
        self.n = n

    def map_block_trial_ranges(self, within_block, proc):
        return [proc(0, self.n)]


def corr_conforms(ctx):
    import itertools
    d = ctx.drv()
    ctx.rules.append("I9k: _KInARow.potential_sample_conforms (AtMost/AtLeast/ExactlyKInARow, ExactlyK) on a stub "
                     "block with one range vs SPModel.Conform.conformsRange, every level sequence of length 0..7 over "
                     "two levels and k in 1..5")
    c = sp.Factor("c", ["r", "g"])
    r, g = c.get_level("r"), c.get_level("g")
    classes = {"atmost": sp.AtMostKInARow, "atleast": sp.AtLeastKInARow, "exactlyinarow": sp.ExactlyKInARow, "exactlyk": sp.ExactlyK}
    for kind, cls in classes.items():
        for k in range(1, 6):
            obj = cls(k, (c, "r"))
            for n in range(0, 8 if ctx.big() else 7):
                for bits in itertools.product([False, True], repeat=n):
                    sample = {c: [r if b else g for b in bits]}
                    py = bool(obj.potential_sample_conforms(sample, _StubRanges(n)))
                    le = d.ask({"op": "conform", "m": "conforms", "kind": kind, "k": k, "xs": list(bits)})["ok"]
                    ctx.count("I9k." + kind)
                    ctx.case(("I9k", kind, k, bits), n > 0)
                    if py != le:
                        ctx.corr_break("I9k." + kind, {"k": k, "xs": list(bits)}, py, le)
                        return


def corr_sharing(ctx):
    """init_within_block: the geometry a shared constraint object carries vs SPModel.Conform.afterBlocks."""
    d = ctx.drv()
    rng = ctx.rng
    ctx.rules.append("I6s: a constraint object given to 1-3 blocks of different sizes in a random order: its "
                     "within_block (trials, preamble) vs SPModel.Conform.afterBlocks")
    for it in range(60 if ctx.big() else 25):
        c = sp.Factor("c", ["r", "g"])
        s = sp.Factor("s", ["a", "b", "x"][:rng.choice([2, 3])])
        t = sp.Factor("t", [sp.DerivedLevel("same", sp.Transition(lambda v: v[0] == v[-1], [c])),
                            sp.DerivedLevel("diff", sp.Transition(lambda v: v[0] != v[-1], [c]))])
        kind = rng.choice([sp.AtMostKInARow, sp.AtLeastKInARow, sp.ExactlyK, sp.ExactlyKInARow])
        obj = kind(rng.randint(1, 3), (c, "r")) if rng.random() < 0.8 else sp.Pin(rng.randint(0, 2), (c, "r"))
        shapes = [([c], [c]), ([c, s], [c, s]), ([c, s], [s]), ([c, t], [c, t]), ([c, s, t], [s, t])]
        order = [rng.choice(shapes) for _ in range(rng.randint(1, 3))]
        gs = []
        try:
            for design, crossing in order:
                extra = [sp.MinimumTrials(rng.choice([1, 5, 7]))] if rng.random() < 0.4 else []
                b = quiet(sp.CrossBlock, design, crossing, [obj] + extra)
                geo = b.get_geometry(0)
                gs.append([geo.num_trials, geo.preamble_size])
        except Exception:
            continue
        py = [obj.within_block.num_trials, obj.within_block.preamble_size]
        le = d.ask({"op": "conform", "m": "after_blocks", "gs": gs})["ok"]
        ctx.count("I6s.sharing")
        ctx.case(("I6s", repr(gs)), len(gs) > 1)
        if py != le:
            ctx.corr_break("I6s.init_within_block", {"gs": gs}, py, le)


# ---------------------------------------------------------------- I7d: Gen.decode

def py_decode(blk, solution):
    from sweetpea._internal.sampling_strategy.base import Gen as SPGen
    try:
        dec = SPGen.decode(blk, list(solution))
    except Exception as e:  # noqa: BLE001
        return {"err": type(e).__name__}
    out = []
    for f in blk.act_design:
        if f.name not in dec:
            out.append(None)
            continue
        out.append([None if x == "" else str(x) for x in dec[f.name]])
    return {"ok": out}


def _names(blk, le):
    """level indices of the model's answer -> level names (a desugared weighted factor has equal names)"""
    if "ok" not in le:
        return le
    out = []
    for f, row in zip(blk.act_design, le["ok"]):
        names = [str(l.name) for l in f.levels]
        out.append(None if row is None else [None if x is None else names[x] for x in row])
    return {"ok": out}


def corr_decode(ctx):
    """Gen.decode on one-hot assignments (with auxiliary variables and negative literals mixed in, shuffled) and on
    arbitrary subsets of the design variables (several / no levels per trial) vs SPModel.Decode.decode"""
    d = ctx.drv()
    rng = ctx.rng
    ctx.rules.append("I7d: Gen.decode(block, solution) for one-hot assignments and for arbitrary variable subsets "
                     "(incl. too few variables of a complex-window factor: IndexError) vs SPModel.Decode.decode, "
                     "compared exactly per factor and trial")
    for case in OD.gen_cases(ctx, 8 if not ctx.big() else 60):
        blk = case.fresh_block()
        if len({f.name for f in blk.act_design}) != len(list(blk.act_design)):
            continue
        req0 = lblock(blk)
        vps = blk.variables_per_sample()
        n = blk.trials_per_sample()
        for mode in ("onehot", "subset", "onehot"):
            sol = []
            if mode == "onehot":
                for t in range(1, n + 1):
                    for f in blk.act_design:
                        sc = blk.sustain_count(f)
                        if f.applies_to_trial((t - 1) // sc + 1):
                            sol.append(blk._encode_variable(f, rng.choice(list(f.levels)), t))
                chosen = set(sol)
                sol += [-v for v in range(1, vps + 1) if v not in chosen]
                sol += [v if rng.random() < 0.5 else -v for v in range(vps + 1, vps + rng.randint(0, 6))]
            else:
                sol = [v if rng.random() < 0.4 else -v for v in range(1, vps + 1)]
            rng.shuffle(sol)
            req = {"op": "decode", "factors": req0["factors"], "trials": req0["trials"], "solution": sol}
            py = py_decode(blk, sol)
            le = _names(blk, d.ask(req))
            ctx.count("I7d.decode." + mode)
            if "err" in py:
                ctx.count("I7d.err." + py["err"])
            ctx.case("I7d:" + str(hash(str(req))), nontrivial=vps > 2)
            if py != le:
                ctx.corr_break("I7d.decode", req, OD.sample_desc(case), {"python": str(py)[:500], "lean": str(le)[:500]})
                if len(ctx.corr_breaks) > 3:
                    return
