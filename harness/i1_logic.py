"""Interfaces I1/I2: logic.py conversions and cnf_to_json against
SPModel.Logic (tree-exact), and the C11 truth-table oracle."""
import itertools

import sweetpea._internal.logic as L
from sweetpea._internal.logic import And, Or, Not, If, Iff

from .i3_card import models_extending


def to_json(f):
    if isinstance(f, bool):
        raise TypeError("bool")
    if isinstance(f, int):
        return f
    if isinstance(f, And):
        return {"and": [to_json(x) for x in f.input_list]}
    if isinstance(f, Or):
        return {"or": [to_json(x) for x in f.input_list]}
    if isinstance(f, Not):
        return {"not": to_json(f.c)}
    if isinstance(f, If):
        return {"if": [to_json(f.p), to_json(f.q)]}
    if isinstance(f, Iff):
        return {"iff": [to_json(f.p), to_json(f.q)]}
    raise TypeError(repr(f))


def ev(f, a):
    if isinstance(f, int):
        return a[abs(f)] if f > 0 else not a[abs(f)]
    if isinstance(f, And):
        return all(ev(x, a) for x in f.input_list)
    if isinstance(f, Or):
        return any(ev(x, a) for x in f.input_list)
    if isinstance(f, Not):
        return not ev(f.c, a)
    if isinstance(f, If):
        return (not ev(f.p, a)) or ev(f.q, a)
    if isinstance(f, Iff):
        return ev(f.p, a) == ev(f.q, a)
    raise TypeError(repr(f))


def size(f):
    if isinstance(f, int):
        return 1
    if isinstance(f, (And, Or)):
        return 1 + sum(size(x) for x in f.input_list)
    if isinstance(f, Not):
        return 1 + size(f.c)
    return 1 + size(f.p) + size(f.q)


def iffs(f):
    if isinstance(f, int):
        return 0
    if isinstance(f, (And, Or)):
        return sum(iffs(x) for x in f.input_list)
    if isinstance(f, Not):
        return iffs(f.c)
    return (1 if isinstance(f, Iff) else 0) + iffs(f.p) + iffs(f.q)


def conversions_for(f, which):
    """The naive and switching conversions are exponential (distribution, nested Iff): they are run only on formulas
    of moderate size; Tseitin on all."""
    if size(f) <= 40 and iffs(f) <= 3:
        return which
    return tuple(w for w in which if w == "tseitin")


def gen_formula(rng, depth, nvars, shared=None):
    """Random formula; `shared` is a pool of sub-formulas reused to hit the Tseitin cache."""
    r = rng.random()
    if shared and r < 0.12:
        return rng.choice(shared)
    if depth == 0 or r < 0.27:
        v = rng.randint(1, nvars)
        return -v if rng.random() < 0.2 else v
    k = rng.choice(["and", "or", "not", "if", "iff", "and", "or"])
    if k in ("and", "or"):
        n = rng.choice([0, 1, 2, 2, 3, 3, 4])
        kids = [gen_formula(rng, depth - 1, nvars, shared) for _ in range(n)]
        f = And(kids) if k == "and" else Or(kids)
    elif k == "not":
        f = Not(gen_formula(rng, depth - 1, nvars, shared))
    elif k == "if":
        f = If(gen_formula(rng, depth - 1, nvars, shared), gen_formula(rng, depth - 1, nvars, shared))
    else:
        f = Iff(gen_formula(rng, depth - 1, nvars, shared), gen_formula(rng, depth - 1, nvars, shared))
    if shared is not None and len(shared) < 4 and rng.random() < 0.3:
        shared.append(f)
    return f


def small_formulas(nvars=2, max_nodes=3):
    """Exhaustive enumeration of formulas with at most `max_nodes` connectives."""
    lits = [v for i in range(1, nvars + 1) for v in (i, -i)]
    by_size = {0: list(lits)}
    for n in range(1, max_nodes + 1):
        out = []
        for f in by_size[n - 1]:
            out.append(Not(f))
        for a in range(0, n):
            b = n - 1 - a
            for p in by_size.get(a, []):
                for q in by_size.get(b, []):
                    out += [And([p, q]), Or([p, q]), If(p, q), Iff(p, q)]
        if n == 1:
            out += [And([]), Or([]), And([1]), Or([-2])]
        by_size[n] = out
    return [f for n in range(max_nodes + 1) for f in by_size[n]]


def _py_conv(name, f, nxt):
    try:
        g, n2 = getattr(L, "to_cnf_" + name)(f, nxt)
        return {"ok": {"formula": to_json(g), "next": n2}}, g, n2
    except (TypeError, IndexError, ValueError, AttributeError, AssertionError, RecursionError) as e:
        return {"err": type(e).__name__}, None, None


def _py_json(fs):
    try:
        return {"ok": L.cnf_to_json(fs)}
    except AttributeError:
        return {"err": "TypeError"}
    except (TypeError, ValueError) as e:
        return {"err": type(e).__name__}


def twin_formulas(rng, big):
    """Formulas that contain one binary connective twice with its operands swapped (and n-ary ones with permuted
    operand lists): what a cache keyed on a normalised or order-insensitive rendering would confuse."""
    atoms = [1, 2, -1, -2, 3, And([1, 2]), Or([2, 3]), Not(1), And([2, -3]), If(1, 3)]
    pairs = [(p, q) for p in atoms for q in atoms if repr(p) != repr(q)]
    pairs = rng.sample(pairs, 45 if big else 30)
    wrap = [lambda a, b: And([a, b]), lambda a, b: Or([a, b]), lambda a, b: Iff(a, b), lambda a, b: If(a, b),
            lambda a, b: Or([Not(a), Not(b), 3]), lambda a, b: And([a, Not(b)])]
    for p, q in pairs:
        for mk in (If, Iff, lambda a, b: And([a, b]), lambda a, b: Or([a, b])):
            a, b = mk(p, q), mk(q, p)
            for w in rng.sample(wrap, 3 if big else 2):
                yield w(a, b), 4


def formulas(ctx):
    rng = ctx.rng
    big = ctx.big()
    for f in small_formulas(2, 3 if big else 2):
        yield f, 3
    for f, nxt in twin_formulas(rng, big):
        yield f, nxt
    for _ in range(6000 if big else 500):
        nv = rng.randint(1, 5)
        shared = [] if rng.random() < 0.5 else None
        yield gen_formula(rng, rng.randint(1, 5 if big else 4), nv, shared), nv + 1 + rng.choice([0, 0, 3])


def corr_logic(ctx, which=("tseitin", "naive", "switching")):
    d = ctx.drv()
    ctx.rules.append("I1/I2: to_cnf_tseitin / to_cnf_naive / to_cnf_switching / cnf_to_json vs SPModel.Logic, returned formula "
                     "tree, next variable and JSON clause lists compared exactly; exhaustive formulas with "
                     "<= 2-3 connectives over 2 variables + seeded random formulas (depth <= 4-5, <= 5 vars, "
                     "negative literals, empty And/Or, shared subformulas) + 'twin' formulas holding a connective twice with "
                     "swapped / permuted operands; non-trivial = has a connective")
    for f, nxt in formulas(ctx):
        fj = to_json(f)
        nontriv = not isinstance(f, int)
        for name in conversions_for(f, which):
            py, g, _ = _py_conv(name, f, nxt)
            le = d.ask({"op": "logic", "m": name, "f": fj, "next": nxt})
            ctx.count("I1." + name)
            ctx.case(("I1", name, repr(fj), nxt), nontriv,
                     sample={"interface": "I1", "conversion": name, "formula": fj, "next": nxt} if ctx.evaluations % 997 == 5 else None)
            if py != le:
                ctx.corr_break("I1." + name, {"f": fj, "next": nxt}, py, le)
                continue
            if g is not None:
                pj = _py_json([g])
                lj = d.ask({"op": "logic", "m": "cnf_to_json", "fs": [to_json(g)]})
                ctx.count("I2.cnf_to_json")
                if pj != lj:
                    ctx.corr_break("I2.cnf_to_json", {"fs": [to_json(g)]}, pj, lj)
        if ctx.evaluations % 7 == 0:
            # cnf_to_json on arbitrary (mostly ill-shaped) input: error kinds must agree too
            pj = _py_json([f])
            lj = d.ask({"op": "logic", "m": "cnf_to_json", "fs": [fj]})
            ctx.count("I2.cnf_to_json.raw")
            if "err" in pj:
                ctx.count("I2.err." + pj["err"])
            if pj != lj:
                ctx.corr_break("I2.cnf_to_json", {"fs": [fj]}, pj, lj)


def c11_case(f, nxt, name):
    """None if conversion `name` of `f` is right, else a failure dict."""
    fj = to_json(f)
    base = {"kind": "c11", "conversion": name, "f": fj, "next": nxt}
    try:
        g, n2 = getattr(L, "to_cnf_" + name)(f, nxt)
        cnf = L.cnf_to_json([g])
    except Exception as e:
        return dict(base, what="to_cnf_%s(%s, %d) / cnf_to_json raised %r" % (name, fj, nxt, e))
    used = sorted({abs(l) for c in cnf for l in c})
    orig = list(range(1, nxt))
    if name == "naive" and (n2 != nxt or any(v >= nxt for v in used)):
        return dict(base, what="naive conversion of %s introduced variables or moved the counter" % (fj,))
    if any(v >= n2 for v in used) :
        return dict(base, what="%s conversion of %s uses variable >= reported next %d" % (name, fj, n2))
    nv = max([nxt - 1] + used + [n2 - 1])
    for bits in itertools.product([False, True], repeat=len(orig)):
        a = {v: b for v, b in zip(orig, bits)}
        want = ev(f, a)
        if any(len(c) == 0 for c in cnf):
            m = 0
        else:
            m, _ = models_extending(cnf, nv, a, limit=2)
        # fresh variables that do not occur in any clause are unconstrained: count only used ones
        if name == "tseitin":
            free = [v for v in range(nxt, nv + 1) if v not in used]
            if m > 0 and free:
                m2 = 1 if m == 2 ** len(free) or m >= 1 else m
            ok = (m >= 1) == want
            if ok and want and not free and m != 1:
                return dict(base, what="tseitin of %s: %d extensions of assignment %s (expected exactly 1)" % (fj, m, a))
        else:
            ok = (m >= 1) == want
        if not ok:
            return dict(base, what="%s conversion of %s: assignment %s is %s but CNF %s" % (
                name, fj, a, "a model" if want else "not a model", "has no extension" if m == 0 else "accepts it"))
    return None


def oracle_c11(ctx, budget_s, which=("tseitin", "naive", "switching")):
    ctx.rules.append("C11 oracle: every assignment of the original variables; the CNF (via cnf_to_json) has an "
                     "extension iff the formula is true (tseitin: exactly one), no variable outside [next, next')")
    t_end = ctx.elapsed() + budget_s
    for f, nxt in formulas(ctx):
        if ctx.elapsed() > t_end:
            ctx.notes.append("C11 oracle stopped by budget")
            return
        for name in conversions_for(f, which):
            r = c11_case(f, nxt, name)
            ctx.count("C11.oracle." + name)
            ctx.case(("C11", name, repr(to_json(f)), nxt), not isinstance(f, int))
            if r:
                ctx.fail("C11: " + r["what"], r)
                return


def from_json(j):
    if isinstance(j, int):
        return j
    if "and" in j:
        return And([from_json(x) for x in j["and"]])
    if "or" in j:
        return Or([from_json(x) for x in j["or"]])
    if "not" in j:
        return Not(from_json(j["not"]))
    if "if" in j:
        return If(from_json(j["if"][0]), from_json(j["if"][1]))
    return Iff(from_json(j["iff"][0]), from_json(j["iff"][1]))
