"""`./check <Cxx> --tier quick|thorough`  /  `./check replay <path>`

One run = (1) proof audit of the theorems registered for the property,
(2) replay of known findings and corpus, (3) correspondence of the Lean model
with /repo's current working tree at the interfaces the property depends on,
(4) a budgeted run of the property's own oracle against the implementation,
(5) when (1) or (3) broke: a larger search for a concrete failing input.
Exit 0 = held, 1 = VIOLATION line printed, 2 = infrastructure failure.
"""
import argparse
import json
import os
import sys
import traceback

from . import common
from .common import Ctx, Infra


def registry():
    from . import props
    return props.REGISTRY


def run_check(prop, tier, seed):
    reg = registry()
    if prop not in reg:
        print("unknown property", prop)
        return 2
    spec = reg[prop]
    ctx = Ctx(prop, tier, seed)
    ok, msg, dt = common.lake_build(["SPModel", "spdrv"] + common.property_index().get(prop, {}).get("modules", []))
    build_broken = not ok
    if build_broken:
        ctx.notes.append("lake build failed: " + msg[-800:])
    aud = common.audit(prop) if ok else {"obligations": len(common.property_index().get(prop, {}).get("theorems", [])),
                                          "discharged": 0, "theorems": [], "problems": [{"build": msg[-800:]}],
                                          "checker_cmd": "cd lean && lake build"}
    ctx.assumptions = list(spec.get("assumptions", []))
    try:
        # (2) known findings / corpus replay
        if not build_broken:
            from . import findings
            for f in common.known_findings():
                if prop in f.get("properties", []):
                    findings.replay(ctx, f)
        # (3) correspondence
        if not build_broken:
            for fn in spec.get("correspondence", []):
                fn(ctx)
        # (4) budgeted oracle
        for fn in spec.get("oracle", []):
            fn(ctx, spec.get("oracle_budget", {}).get(tier, 30))
        proof_broken = build_broken or aud["discharged"] != aud["obligations"] or bool(aud["problems"])
        # (5) deeper search when the tie or a proof broke and nothing failed yet
        if (proof_broken or ctx.corr_breaks) and not ctx.failures:
            for fn in spec.get("search", spec.get("oracle", [])):
                fn(ctx, spec.get("search_budget", 120))
    finally:
        if ctx.driver:
            ctx.driver.close()

    proof_broken = build_broken or aud["discharged"] != aud["obligations"] or bool(aud["problems"])
    new_failures = [f for f in ctx.failures if not f.get("known")]
    violation = bool(new_failures) or bool(ctx.corr_breaks) or proof_broken
    level = spec.get("level", "proof" if aud["obligations"] else "exploration")
    common.write_evidence(ctx, aud, level, 1 if violation else 0,
                          spec.get("trusted_base", []), extra=spec.get("extra_evidence"))
    for k in ctx.known_hits:
        print("KNOWN-FINDING: property=%s %s" % (prop, k))
    if not violation:
        print("OK property=%s tier=%s seed=%d evaluations=%d distinct=%d theorems=%d/%d wall=%.1fs" % (
            prop, tier, seed, ctx.evaluations, len(ctx.distinct), aud["discharged"], aud["obligations"], ctx.wall()))
        return 0
    payload = {"property": prop, "tier": tier, "seed": seed}
    if new_failures:
        payload["failing_input"] = new_failures[0]
        payload["more_failures"] = new_failures[1:5]
        payload["correspondence_breaks"] = ctx.corr_breaks[:5]
        rel = common.write_replay(ctx, payload)
        print("FAILING-INPUT: " + new_failures[0]["what"])
        print("VIOLATION property=%s replay=%s" % (prop, rel))
    else:
        payload["no_longer_checks"] = {
            "proof_audit_problems": aud["problems"],
            "correspondence_breaks": ctx.corr_breaks[:8],
            "note": "the model no longer mirrors the implementation (or a theorem no longer checks); "
                    "the search over the implementation found no input on which the property fails",
        }
        rel = common.write_replay(ctx, payload)
        if ctx.corr_breaks:
            print("CORRESPONDENCE-BROKEN: interface=%s input=%s" % (ctx.corr_breaks[0]["interface"],
                                                                     json.dumps(ctx.corr_breaks[0]["input"])[:300]))
        print("VIOLATION property=%s replay=%s no-failing-input-found" % (prop, rel))
    return 1


def run_replay(path):
    with open(path) as f:
        payload = json.load(f)
    prop = payload["property"]
    spec = registry()[prop]
    fn = spec.get("replay")
    print(json.dumps(payload.get("failing_input", payload.get("no_longer_checks")), indent=1)[:4000])
    if fn and "failing_input" in payload:
        ctx = Ctx(prop, "quick", payload.get("seed", 0))
        try:
            fn(ctx, payload["failing_input"]["replay"])
        finally:
            if ctx.driver:
                ctx.driver.close()
        if ctx.failures:
            print("REPLAY: still fails: " + ctx.failures[0]["what"])
            return 1
        print("REPLAY: passes on the current tree")
        return 0
    return 0


def main():
    ap = argparse.ArgumentParser()
    ap.add_argument("prop")
    ap.add_argument("path", nargs="?")
    ap.add_argument("--tier", default=os.environ.get("VERIF_TIER", "quick"))
    ap.add_argument("--replay")
    a = ap.parse_args()
    seed = int(os.environ.get("VERIF_SEED", "0") or 0)
    try:
        if a.prop == "replay":
            sys.exit(run_replay(a.path or a.replay))
        sys.exit(run_check(a.prop, a.tier if a.tier in ("quick", "thorough") else "quick", seed))
    except Infra as e:
        print("INFRASTRUCTURE-FAILURE:", e)
        sys.exit(2)
    except Exception:
        traceback.print_exc()
        print("INFRASTRUCTURE-FAILURE: harness exception")
        sys.exit(2)


if __name__ == "__main__":
    main()
