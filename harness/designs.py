"""Design descriptions: a JSON-able description of an experiment design (the
same JSON the Lean driver parses), a builder that constructs the real
sweetpea objects from it (fresh objects on every call), conversion of returned
experiments to the Lean `Seq` format, and the seeded generator of descriptions
inside the regions where the documentation defines the meaning.
"""
import contextlib
import io
import itertools
import os

import sweetpea as sp
from sweetpea._internal.primitive import ElseLevel


# ------------------------------------------------------------------ building

def window_key(desc_factors, w, args_by_dep):
    """Index into a level's truth table; mirrors SPModel.Spec.windowKey.
    args_by_dep: per dependency, list over offsets 1-width..0 of level index or None."""
    key = 0
    for dep, vals in zip(w["deps"], args_by_dep):
        base = len(desc_factors[dep]["levels"]) + 1
        for v in vals:
            key = key * base + (0 if v is None else v + 1)
    return key


def table_size(desc_factors, w):
    n = 1
    for dep in w["deps"]:
        n *= (len(desc_factors[dep]["levels"]) + 1) ** w["width"]
    return n


class Built:
    def __init__(self):
        self.factors = {}     # id -> Factor object
        self.block = None
        self.constraint_objs = []


def _name_index(desc_factors, fid):
    return {l["name"]: i for i, l in enumerate(desc_factors[fid]["levels"])}


def build_factor(desc, fid, built):
    fs = {f["id"]: f for f in desc["factors"]}
    f = fs[fid]
    if f.get("window") is None:
        levels = [sp.Level(l["name"], l["w"]) if l["w"] != 1 else l["name"] for l in f["levels"]]
        return sp.Factor(f["name"], levels)
    w = f["window"]
    deps = [built.factors[d] for d in w["deps"]]
    idxs = [_name_index(fs, d) for d in w["deps"]]
    width = w["width"]

    def make_pred(table):
        if w["kind"] == "within":
            def pred(*names):
                args = [[None if n is None else ix[n]] for n, ix in zip(names, idxs)]
                return bool(table[window_key(fs, w, args)])
        else:
            def pred(*dicts):
                args = []
                for dct, ix in zip(dicts, idxs):
                    vals = []
                    if width == 1 and not isinstance(dct, dict):
                        # a window of width 1 receives the level name itself, not a dictionary of offsets
                        vals.append(None if dct is None else ix[dct])
                    else:
                        for off in range(1 - width, 1):
                            n = dct[off]
                            vals.append(None if n is None else ix[n])
                    args.append(vals)
                return bool(table[window_key(fs, w, args)])
        return pred

    levels = []
    for l in f["levels"]:
        if l.get("else"):
            levels.append(ElseLevel(l["name"], l["w"]) if l["w"] != 1 else ElseLevel(l["name"]))
            continue
        if w["kind"] == "within":
            win = sp.WithinTrial(make_pred(l["table"]), deps)
        elif w["kind"] == "transition":
            win = sp.Transition(make_pred(l["table"]), deps)
        else:
            win = sp.Window(make_pred(l["table"]), deps, width, w["stride"], w["start"])
        levels.append(sp.DerivedLevel(l["name"], win, l["w"]) if l["w"] != 1 else sp.DerivedLevel(l["name"], win))
    return sp.Factor(f["name"], levels)


def build_constraint(desc, c, built, shared=None):
    key = c.get("obj")
    if shared is not None and key is not None and key in shared:
        return shared[key]
    fs = {f["id"]: f for f in desc["factors"]}
    k = c["k"]
    def lvl():
        f = built.factors[c["f"]]
        if c.get("l") is None:
            return f
        return (f, fs[c["f"]]["levels"][c["l"]]["name"])
    if k == "Exclude":
        o = sp.Exclude(lvl())
    elif k == "Pin":
        o = sp.Pin(c["idx"], lvl())
    elif k == "MinimumTrials":
        o = sp.MinimumTrials(c["n"])
    elif k == "AtMostKInARow":
        o = sp.AtMostKInARow(c["n"], lvl())
    elif k == "AtLeastKInARow":
        o = sp.AtLeastKInARow(c["n"], lvl())
    elif k == "ExactlyKInARow":
        o = sp.ExactlyKInARow(c["n"], lvl())
    elif k == "ExactlyK":
        o = sp.ExactlyK(c["n"], lvl())
    elif k == "Sequential":
        o = sp.Sequential(built.factors[c["f"]])
    else:
        raise ValueError(k)
    if shared is not None and key is not None:
        shared[key] = o
    return o


MODES = {"weight": sp.RepeatMode.WEIGHT, "repeat": sp.RepeatMode.REPEAT, "equal": sp.RepeatMode.EQUAL}
ALIGNS = {"post preamble": sp.AlignmentMode.POST_PREAMBLE, "parallel start": sp.AlignmentMode.PARALLEL_START,
          "equal preamble": sp.AlignmentMode.EQUAL_PREAMBLE}


def build_block(desc, b, built, shared=None):
    """With `shared`, a node that carries an "obj" key is built once and the same object is reused."""
    key = b.get("obj")
    if shared is not None and key is not None and ("block", key) in shared:
        return shared[("block", key)]
    blk = _build_block(desc, b, built, shared)
    if shared is not None and key is not None:
        shared[("block", key)] = blk
    return blk


def _build_block(desc, b, built, shared=None):
    cs = [build_constraint(desc, c, built, shared) for c in b.get("cs", [])]
    k = b["k"]
    F = lambda ids: [built.factors[i] for i in ids]
    if k == "cross":
        return sp.CrossBlock(F(b["design"]), F(b["crossing"]), cs, b["rcc"])
    if k == "multicross":
        if b.get("as_strings"):
            # the documented string spellings of mode and alignment instead of the enum members
            return sp.MultiCrossBlock(F(b["design"]), [F(c) for c in b["crossings"]], cs, b["rcc"],
                                      mode=b["mode"], alignment=b["align"])
        return sp.MultiCrossBlock(F(b["design"]), [F(c) for c in b["crossings"]], cs, b["rcc"],
                                  mode=MODES[b["mode"]], alignment=ALIGNS[b["align"]])
    if k == "repeat":
        return sp.Repeat(build_block(desc, b["b"], built, shared), cs)
    if k == "merge":
        al = ALIGNS[b["align"]] if b.get("align") else None
        if b.get("as_strings"):
            return sp.Merge([build_block(desc, x, built, shared) for x in b["bs"]], cs, mode=b["mode"], alignment=b.get("align"))
        if b.get("defaults"):
            # the library's own defaults for mode and alignment (what `Merge([b])` in the documentation means)
            if not cs:
                # literally `Merge([b])`: no constraints argument either (the signature's default list is shared by
                # every such call in the process, so anything a call leaves in it shows in the next one)
                return sp.Merge([build_block(desc, x, built, shared) for x in b["bs"]])
            return sp.Merge([build_block(desc, x, built, shared) for x in b["bs"]], cs)
        return sp.Merge([build_block(desc, x, built, shared) for x in b["bs"]], cs, mode=MODES[b["mode"]], alignment=al)
    if k == "nest":
        al = ALIGNS[b["align"]] if b.get("align") else None
        return sp.Nest(build_block(desc, b["outer"], built, shared), build_block(desc, b["inner"], built, shared), cs, al)
    raise ValueError(k)


def build(desc):
    """Construct fresh sweetpea objects for a description. Raises whatever the
    constructors raise (a rejected design)."""
    built = Built()
    for f in sorted(desc["factors"], key=lambda f: f["id"]):
        built.factors[f["id"]] = build_factor(desc, f["id"], built)
    with contextlib.redirect_stdout(io.StringIO()):
        built.block = build_block(desc, desc["block"], built)
    return built


def quiet(fn, *a, **k):
    with contextlib.redirect_stdout(io.StringIO()), contextlib.redirect_stderr(io.StringIO()):
        return fn(*a, **k)


# ------------------------------------------------------------ serialisation

def block_design_ids(b):
    """ids of all factors in the (combined) design of a block expression"""
    k = b["k"]
    if k in ("cross", "multicross"):
        return list(b["design"])
    if k == "repeat":
        return block_design_ids(b["b"])
    if k == "merge":
        out = []
        for x in b["bs"]:
            out += [i for i in block_design_ids(x) if i not in out]
        return out
    if k == "nest":
        out = block_design_ids(b["outer"])
        return out + [i for i in block_design_ids(b["inner"]) if i not in out]
    raise ValueError(k)


def exp_to_seq(desc, exp):
    """A returned experiment (name -> list of level names, '' = none) as Lean Seq JSON.
    Returns (seq, problems): unknown names are reported, not hidden."""
    fs = {f["id"]: f for f in desc["factors"]}
    seq, problems = [], []
    for fid in block_design_ids(desc["block"]):
        f = fs[fid]
        if f["name"] not in exp:
            problems.append("factor %s missing from the returned experiment" % f["name"])
            continue
        ix = {l["name"]: i for i, l in enumerate(f["levels"])}
        col = []
        for v in exp[f["name"]]:
            if v == "" or v is None:
                col.append(None)
            elif v in ix:
                col.append(ix[v])
            else:
                problems.append("factor %s has unknown level %r" % (f["name"], v))
                col.append(None)
        seq.append([fid, col])
    extra = set(exp.keys()) - {fs[i]["name"] for i in block_design_ids(desc["block"])}
    if extra:
        problems.append("unexpected keys %s in the returned experiment" % sorted(map(str, extra)))
    return seq, problems


def seq_to_exp(desc, seq):
    fs = {f["id"]: f for f in desc["factors"]}
    return {fs[fid]["name"]: [("" if v is None else fs[fid]["levels"][v]["name"]) for v in col] for fid, col in seq}


def seq_key(seq):
    return tuple((fid, tuple(col)) for fid, col in sorted(seq))


# --------------------------------------------------------------- generation

NAMES = ["a", "b", "c", "d", "e"]


def _rand_partition_tables(rng, size, nlevels, allow_empty=False):
    """Random total, unambiguous predicate tables: each window tuple goes to exactly one level."""
    while True:
        assign = [rng.randrange(nlevels) for _ in range(size)]
        if allow_empty or all(any(a == l for a in assign) for l in range(nlevels)) or size < nlevels:
            break
    return [[1 if a == l else 0 for a in assign] for l in range(nlevels)]


class Gen:
    """Seeded generator of design descriptions."""

    def __init__(self, rng, max_trials=7):
        self.rng = rng
        self.max_trials = max_trials

    def simple_factor(self, fid, weighted=False, nlev=None):
        rng = self.rng
        n = nlev or rng.choice([2, 2, 3])
        levels = [{"name": "%s%d" % (NAMES[fid % 5], i), "w": (rng.choice([1, 2]) if weighted else 1)} for i in range(n)]
        return {"id": fid, "name": "f%d" % fid, "levels": levels, "window": None}

    def derived_factor(self, fid, factors, kind=None, else_level=False):
        rng = self.rng
        fs = {f["id"]: f for f in factors}
        kind = kind or rng.choice(["within", "within", "transition", "window"])
        cand = [f["id"] for f in factors if f.get("window") is None or
                (f["window"]["stride"] == 1)]
        ndeps = 1 if len(cand) == 1 else rng.choice([1, 2, 2])
        deps = rng.sample(cand, ndeps)
        if kind == "within":
            w = {"deps": deps, "width": 1, "stride": 1, "start": None, "kind": "within"}
        elif kind == "transition":
            # Transition fixes start=1 in the code; only over dependencies that are ready at 0
            deps = [d for d in deps if fs[d].get("window") is None or fs[d]["window"]["kind"] == "within" and
                    all(fs[x].get("window") is None for x in fs[d]["window"]["deps"])] or \
                   [next(f["id"] for f in factors if f.get("window") is None)]
            w = {"deps": deps, "width": 2, "stride": 1, "start": None, "kind": "transition"}
        else:
            w = {"deps": deps, "width": rng.choice([2, 2, 3]), "stride": rng.choice([1, 1, 2]), "start": None,
                 "kind": "window"}
        nlev = 2 if table_size(fs, w) > 64 else rng.choice([2, 2, 3])
        if table_size(fs, w) > 5000:
            w["width"] = 2
        size = table_size(fs, w)
        tables = _rand_partition_tables(rng, size, nlev)
        levels = [{"name": "%s%d" % (NAMES[fid % 5], i), "w": 1, "table": tables[i]} for i in range(nlev)]
        if else_level:
            # the ElseLevel may stand anywhere in the list: it matches what *all* the other levels leave over
            levels[rng.randrange(nlev) if rng.random() < 0.4 else -1]["else"] = True
        return {"id": fid, "name": "f%d" % fid, "levels": levels, "window": w}

    def constraint(self, factors, fid_pool, ntrials, kinds):
        rng = self.rng
        fs = {f["id"]: f for f in factors}
        k = rng.choice(kinds)
        if k == "MinimumTrials":
            return {"k": k, "n": rng.randint(1, self.max_trials)}
        f = rng.choice(fid_pool)
        nl = len(fs[f]["levels"])
        l = rng.randrange(nl)
        if k == "Exclude":
            return {"k": k, "f": f, "l": l}
        if k == "Pin":
            return {"k": k, "idx": rng.randint(-ntrials - 1, ntrials), "f": f, "l": l}
        if k == "Sequential":
            return {"k": k, "f": f}
        whole = rng.random() < 0.25
        return {"k": k, "n": rng.randint(1, 4), "f": f, "l": None if whole else l}


def uses_kind(desc, kinds):
    def walk(b):
        for c in b.get("cs", []):
            if c["k"] in kinds:
                return True
        for key in ("b", "outer", "inner"):
            if key in b and walk(b[key]):
                return True
        return any(walk(x) for x in b.get("bs", []))
    return walk(desc["block"])


def all_constraints(b):
    out = list(b.get("cs", []))
    for key in ("b", "outer", "inner"):
        if key in b:
            out += all_constraints(b[key])
    for x in b.get("bs", []):
        out += all_constraints(x)
    return out
