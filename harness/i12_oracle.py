"""Interface I12: the property-level oracle.  Designs are generated as
descriptions (designs.py), built with the real constructors, sampled with the
real strategies, and every returned sequence is judged by the Lean reference
semantics `SPModel.Spec` through the driver.  Exhaustive comparisons use
`Spec.validSeqs`."""
import copy
import json
import os
import subprocess
import sys

import sweetpea as sp

from . import designs as D
from .designs import quiet

CAP_SOLUTIONS = 300          # exhaust-based comparisons only below this many solutions
CAP_CANDIDATES = 40000       # Spec.validSeqs candidate cap
RANDOM_SPACE = 6000          # RandomGen is run only when its candidate-key space is at most this large


def lean_geo(ctx, desc):
    return ctx.drv().ask({"op": "spec", "m": "geo", "design": desc})["ok"]


def lean_valid(ctx, desc, seqs):
    if not seqs:
        return []
    return ctx.drv().ask({"op": "spec", "m": "valid", "design": desc, "seqs": seqs})["ok"]


def lean_valid_seqs(ctx, desc, cap=CAP_CANDIDATES):
    return ctx.drv().ask({"op": "spec", "m": "valid_seqs", "design": desc, "cap": cap})["ok"]


# ---------------------------------------------------------------- generator

RUN_KINDS = ["AtMostKInARow", "AtLeastKInARow", "ExactlyKInARow"]


def gen_leaf(g, fid0=0, want_derived=None, allow_weights=True, kinds=None, small=False):
    """A CrossBlock description (dict with 'factors' and 'block') in the defined region."""
    rng = g.rng
    factors = []
    nsimple = rng.choice([1, 2, 2, 3]) if not small else rng.choice([1, 2])
    weighted_any = allow_weights and rng.random() < 0.25
    for i in range(nsimple):
        factors.append(g.simple_factor(fid0 + i, weighted=weighted_any and rng.random() < 0.6,
                                       nlev=2 if small and i > 0 else None))
    nder = rng.choice([0, 0, 1, 1, 2]) if want_derived is None else want_derived
    for j in range(nder):
        kind = rng.choice(["within", "within", "transition", "window"])
        f = g.derived_factor(fid0 + nsimple + j, factors, kind=kind, else_level=rng.random() < 0.3)
        factors.append(f)
    ids = [f["id"] for f in factors]
    fs = {f["id"]: f for f in factors}
    simple_ids = [f["id"] for f in factors if f["window"] is None]
    crossable = [f["id"] for f in factors if f["window"] is None or f["window"]["stride"] == 1]
    # crossing: mostly simple factors, sometimes a derived one
    k = rng.randint(1, min(2, len(simple_ids)))
    crossing = sorted(rng.sample(simple_ids, k))
    der_cross = [i for i in crossable if fs[i]["window"] is not None]
    if der_cross and rng.random() < 0.35:
        crossing.append(rng.choice(der_cross))
    size = 1
    for c in crossing:
        size *= sum(l["w"] for l in fs[c]["levels"])
    tries = 0
    while size > g.max_trials and len(crossing) > 1 and tries < 5:
        crossing.pop(0)
        size = 1
        for c in crossing:
            size *= sum(l["w"] for l in fs[c]["levels"])
        tries += 1
    cs = []
    kinds = kinds if kinds is not None else ["Exclude", "Pin", "MinimumTrials"] + RUN_KINDS + ["ExactlyK"] + \
        (["Sequential"] if rng.random() < 0.3 else [])
    for _ in range(rng.choice([0, 1, 1, 2])):
        if not kinds:
            break
        kd = rng.choice(kinds)
        pool = ids
        if kd in RUN_KINDS:
            pool = [i for i in ids if fs[i]["window"] is None or fs[i]["window"]["stride"] == 1]
        if kd == "Pin":
            pool = [i for i in ids if fs[i]["window"] is None or fs[i]["window"]["kind"] == "within" and
                    all(fs[x]["window"] is None for x in fs[i]["window"]["deps"])]
        if kd == "Sequential":
            pool = [i for i in crossing if fs[i]["window"] is None and all(l["w"] == 1 for l in fs[i]["levels"])]
        if not pool:
            continue
        c = g.constraint(factors, pool, max(size, 2), [kd])
        if c["k"] == "MinimumTrials":
            c["n"] = rng.randint(1, g.max_trials + 1)
        cs.append(c)
    has_excl = any(c["k"] == "Exclude" for c in cs)
    rcc = (rng.random() < 0.2) if has_excl else (rng.random() < 0.85)
    block = {"k": "cross", "design": ids, "crossing": crossing, "cs": cs, "rcc": rcc}
    return {"factors": factors, "block": block}


def leaf_trials(desc):
    """crossing size (weights, no exclusions) of a leaf"""
    fs = {f["id"]: f for f in desc["factors"]}
    n = 1
    for c in desc["block"]["crossing"]:
        n *= sum(l["w"] for l in fs[c]["levels"])
    return n


def gen_design(g, composite=True):
    """A design description: a leaf, or a composition in the defined region."""
    rng = g.rng
    r = rng.random()
    if not composite or r < 0.45:
        return gen_leaf(g)
    if r < 0.60:
        # Repeat: whole repetitions only when the inner block has scoped constraints
        leaf = gen_leaf(g, kinds=["Pin", "ExactlyK"] + RUN_KINDS + ["MinimumTrials"], small=True)
        leaf["block"]["cs"] = [c for c in leaf["block"]["cs"] if c["k"] != "MinimumTrials"]
        s = leaf_trials(leaf)
        has_der_pre = any(f["window"] is not None and f["id"] in leaf["block"]["crossing"] for f in leaf["factors"])
        reps = rng.choice([1, 2, 2, 3])
        outer = []
        if not has_der_pre:
            n = s * reps if (leaf["block"]["cs"] or rng.random() < 0.6) else s * reps + rng.randint(1, max(1, s - 1))
            outer.append({"k": "MinimumTrials", "n": n})
        if rng.random() < 0.4:
            ids = [f["id"] for f in leaf["factors"] if f["window"] is None]
            outer.append(g.constraint(leaf["factors"], ids, s * reps, [rng.choice(RUN_KINDS[:1] + ["ExactlyK"])]))
        return {"factors": leaf["factors"], "block": {"k": "repeat", "b": leaf["block"], "cs": outer}}
    if r < 0.75:
        # MultiCrossBlock over one design
        leaf = gen_leaf(g, want_derived=rng.choice([0, 1]), kinds=["Pin", "AtMostKInARow", "ExactlyK"])
        fs = {f["id"]: f for f in leaf["factors"]}
        simple = [f["id"] for f in leaf["factors"] if f["window"] is None]
        if len(simple) < 2:
            return leaf
        a = [simple[0]]
        b = [x for x in simple[1:]][:1]
        mode = rng.choice(["weight", "repeat", "equal"])
        align = rng.choice(["equal preamble", "parallel start", "post preamble"])
        blk = {"k": "multicross", "design": leaf["block"]["design"], "crossings": [a, b],
               "cs": [c for c in leaf["block"]["cs"]], "rcc": True, "mode": mode, "align": align}
        return {"factors": leaf["factors"], "block": blk}
    if r < 0.88:
        # Merge of two leaves with disjoint factors
        l1 = gen_leaf(g, fid0=0, small=True, want_derived=rng.choice([0, 1]), kinds=["Pin", "AtMostKInARow", "ExactlyK"], allow_weights=False)
        l2 = gen_leaf(g, fid0=10, small=True, want_derived=0, kinds=["AtMostKInARow"], allow_weights=False)
        for l in (l1, l2):
            l["block"]["cs"] = [c for c in l["block"]["cs"] if c["k"] != "MinimumTrials"]
            l["block"]["rcc"] = True
        s1, s2 = leaf_trials(l1), leaf_trials(l2)
        # block-scoped constraints need whole repetitions
        if (l1["block"]["cs"] and max(s1, s2) % s1) or (l2["block"]["cs"] and max(s1, s2) % s2):
            l1["block"]["cs"] = []
            l2["block"]["cs"] = []
        mode = rng.choice(["repeat", "weight"])
        return {"factors": l1["factors"] + l2["factors"],
                "block": {"k": "merge", "bs": [l1["block"], l2["block"]], "cs": [], "mode": mode, "align": None}}
    # Nest: simple outer, small inner, no preambles
    lo = gen_leaf(g, fid0=0, small=True, want_derived=0, kinds=["Pin", "ExactlyK"], allow_weights=False)
    li = gen_leaf(g, fid0=10, small=True, want_derived=rng.choice([0, 1]), kinds=["Pin", "AtMostKInARow", "ExactlyK"], allow_weights=False)
    for l in (lo, li):
        l["block"]["cs"] = [c for c in l["block"]["cs"] if c["k"] != "MinimumTrials"]
        l["block"]["rcc"] = True
    # keep derived inner factors out of the inner crossing (no preamble)
    fs = {f["id"]: f for f in li["factors"]}
    li["block"]["crossing"] = [c for c in li["block"]["crossing"] if fs[c]["window"] is None] or \
        [next(f["id"] for f in li["factors"] if f["window"] is None)]
    lo["block"]["crossing"] = lo["block"]["crossing"][:1]
    # constraints of the outer block only on its crossed factor (what an uncrossed outer factor means under
    # Nest is not documented)
    lo["block"]["cs"] = [c for c in lo["block"]["cs"] if c.get("f") in lo["block"]["crossing"]]
    while leaf_trials(lo) * leaf_trials(li) > g.max_trials + 2 and len(li["block"]["crossing"]) > 1:
        li["block"]["crossing"].pop()
    return {"factors": lo["factors"] + li["factors"],
            "block": {"k": "nest", "outer": lo["block"], "inner": li["block"], "cs": [], "align": None}}


# ------------------------------------------------------------------- corpus

def _sf(fid, names, weights=None):
    return {"id": fid, "name": "f%d" % fid, "window": None,
            "levels": [{"name": n, "w": (weights[i] if weights else 1)} for i, n in enumerate(names)]}


def _transition(fid, dep, nlev_dep):
    # level 0: "same as previous trial", level 1: "different" (None in the window -> different)
    size = (nlev_dep + 1) ** 2
    same = [0] * size
    for i in range(nlev_dep):
        same[(i + 1) * (nlev_dep + 1) + (i + 1)] = 1
    return {"id": fid, "name": "f%d" % fid,
            "window": {"deps": [dep], "width": 2, "stride": 1, "start": None, "kind": "transition"},
            "levels": [{"name": "same", "w": 1, "table": same}, {"name": "diff", "w": 1, "table": [1 - x for x in same]}]}


class _Families(list):
    """list that remembers at which index each family starts"""

    def __init__(self):
        super().__init__()
        self.marks = []

    def mark(self):
        self.marks.append(len(self))


def corpus_designs(big):
    """Deterministic boundary families (sizes and shapes where past defects lived), interleaved so that any
    prefix of the list visits every family."""
    fam = _corpus_families(big)
    bounds = fam.marks + [len(fam)]
    groups = [fam[bounds[i]:bounds[i + 1]] for i in range(len(bounds) - 1)]
    out = []
    i = 0
    while any(groups):
        g = groups[i % len(groups)]
        if g:
            out.append(g.pop(0))
        i += 1
    return out


def _corpus_families(big):
    out = _Families()
    C2f = _sf(0, ["r", "g"])
    out.mark()
    c, t = _sf(0, ["r", "g"]), _sf(1, ["x", "y"])
    ns = range(2, 8) if big else (4, 5, 6)
    ks = range(1, 6) if big else (2, 3, 4)
    for kind in RUN_KINDS + ["ExactlyK"]:
        for n in ns:
            for k in ks:
                for fid in (1, 0):          # uncrossed and crossed factor
                    if fid == 0 and not big and (n + k) % 2:
                        continue
                    out.append({"factors": [c, t], "block": {"k": "cross", "design": [0, 1], "crossing": [0], "rcc": True,
                                "cs": [{"k": "MinimumTrials", "n": n}, {"k": kind, "n": k, "f": fid, "l": 0}]}})
    out.mark()
    # weighted crossed levels with a partial last chunk, in CrossBlock and under Repeat
    for names, ws in ((["a", "b"], [2, 1]), (["a", "b", "c"], [2, 1, 1]), (["a", "b"], [3, 1])):
        f = _sf(0, names, ws)
        size = sum(ws)
        for n in range(size, 2 * size + 2):
            out.append({"factors": [f], "block": {"k": "cross", "design": [0], "crossing": [0], "rcc": True,
                        "cs": [{"k": "MinimumTrials", "n": n}]}})
            out.append({"factors": [f], "block": {"k": "repeat", "cs": [{"k": "MinimumTrials", "n": n}],
                        "b": {"k": "cross", "design": [0], "crossing": [0], "rcc": True, "cs": []}}})
    out.mark()
    # Pin at every index, crossed and uncrossed, also under Repeat
    for idx in range(-5, 5):
        for fid in (0, 1):
            out.append({"factors": [c, t], "block": {"k": "cross", "design": [0, 1], "crossing": [0], "rcc": True,
                        "cs": [{"k": "MinimumTrials", "n": 4}, {"k": "Pin", "idx": idx, "f": fid, "l": 1}]}})
        out.append({"factors": [c, t], "block": {"k": "repeat", "cs": [{"k": "MinimumTrials", "n": 4}],
                    "b": {"k": "cross", "design": [0, 1], "crossing": [0], "rcc": True,
                          "cs": [{"k": "Pin", "idx": idx, "f": 1, "l": 0}]}}})
    out.mark()
    # MultiCrossBlock: crossings with different preambles (a transition factor in one crossing), all modes/alignments
    m3 = _sf(2, ["p", "q", "s"])
    tr = _transition(3, 0, 2)
    for mode in ("weight", "repeat"):
        for align in ("parallel start", "post preamble"):
            for crossings in ([[0, 3], [1]], [[1], [0, 3]], [[0, 3], [1, 2]] if big else [[1, 2], [0, 3]]):
                des = [0, 1, 2, 3] if any(2 in cr for cr in crossings) else [0, 1, 3]
                out.append({"factors": [c, t, m3, tr], "block": {"k": "multicross", "design": des, "crossings": crossings,
                            "cs": [], "rcc": True, "mode": mode, "align": align}})
    # a block whose crossing is a one-level factor, 6 (5) trials, AtLeastKInARow(3) given to the block, repeated twice: the
    # rule about runs near the end of the window holds in *every* repetition
    one = _sf(1, ["only"])
    for blk_n in (6, 5):
        out.append({"factors": [c, one], "block": {"k": "repeat", "cs": [{"k": "MinimumTrials", "n": 2 * blk_n}],
                    "b": {"k": "cross", "design": [0, 1], "crossing": [1], "rcc": True,
                          "cs": [{"k": "MinimumTrials", "n": blk_n}, {"k": "AtLeastKInARow", "n": 3, "f": 0, "l": 0}]}}})
    # the same for ExactlyKInARow(2): a run that ends a window must be complete in *every* repetition, not only the last
    for blk_n in (3, 4):
        out.append({"factors": [c, one], "block": {"k": "repeat", "cs": [{"k": "MinimumTrials", "n": 2 * blk_n}],
                    "b": {"k": "cross", "design": [0, 1], "crossing": [1], "rcc": True,
                          "cs": [{"k": "MinimumTrials", "n": blk_n}, {"k": "ExactlyKInARow", "n": 2, "f": 0, "l": 0}]}}})
    # POST_PREAMBLE, crossings with different preambles in both orders, and a constraint scoped to the block's window
    # (which starts at trial 0 and includes the unified preamble)
    out.mark()
    for crossings in ([[1], [0, 3]], [[0, 3], [1]]):
        for ct in ({"k": "AtMostKInARow", "n": 1, "f": 1, "l": 0}, {"k": "Pin", "idx": 0, "f": 1, "l": 0},
                   {"k": "ExactlyK", "n": 2, "f": 1, "l": 1}, {"k": "Pin", "idx": -1, "f": 0, "l": 0}):
            out.append({"factors": [c, t, m3, tr], "block": {"k": "multicross", "design": [0, 1, 3], "crossings": crossings,
                        "cs": [ct], "rcc": True, "mode": "repeat", "align": "post preamble"}})
    out.mark()
    # mode / alignment given by their documented string spellings, crossings of different size
    sa, sb4 = _sf(0, ["a1", "a2"]), _sf(1, ["b1", "b2", "b3", "b4"])
    for mode in ("repeat", "weight"):
        out.append({"factors": [sa, sb4], "block": {"k": "multicross", "design": [0, 1], "crossings": [[0], [1]], "cs": [],
                    "rcc": True, "mode": mode, "align": "equal preamble", "as_strings": True}})
    # a weighted factor that is in one crossing but not in the other (it must not be split into copies)
    wcol = _sf(0, ["red", "blue"], [2, 1])
    sz3 = _sf(1, ["a", "b", "c"])
    for mode in ("weight", "repeat"):
        for crossings in ([[0], [1]], [[1], [0]]):
            out.append({"factors": [wcol, sz3], "block": {"k": "multicross", "design": [0, 1], "crossings": crossings,
                        "cs": [], "rcc": True, "mode": mode, "align": "equal preamble"}})
    out.mark()
    # Exclude on a within-trial derived level whose factor is outside the crossing (sources partly outside too)
    col, wrd = _sf(0, ["r", "g"]), _sf(1, ["r", "g"])
    eq = [0] * 9
    eq[1 * 3 + 1] = eq[2 * 3 + 2] = 1
    con = {"id": 2, "name": "f2", "window": {"deps": [0, 1], "width": 1, "stride": 1, "start": None, "kind": "within"},
           "levels": [{"name": "con", "w": 1, "table": eq}, {"name": "inc", "w": 1, "table": [1 - x for x in eq]}]}
    for crossing in ([0], [0, 1]):
        for lvl in (0, 1):
            for extra in ([], [{"k": "MinimumTrials", "n": 5}]):
                out.append({"factors": [col, wrd, con], "block": {"k": "cross", "design": [0, 1, 2], "crossing": crossing, "rcc": False,
                            "cs": [{"k": "Exclude", "f": 2, "l": lvl}] + extra}})
    out.append({"factors": [col, wrd, con], "block": {"k": "multicross", "design": [0, 1, 2], "crossings": [[0], [1]], "rcc": False,
                "cs": [{"k": "Exclude", "f": 2, "l": 0}], "mode": "repeat", "align": "equal preamble"}})
    out.mark()
    # crossed within-trial derived factor whose source is outside the crossing, with different numbers of
    # completions per level; whole and partial chunks, uniform weights
    size3 = _sf(1, ["s", "m", "l"])
    low = [0, 0, 0, 1]
    match = {"id": 2, "name": "f2", "window": {"deps": [1], "width": 1, "stride": 1, "start": None, "kind": "within"},
             "levels": [{"name": "low", "w": 1, "table": low}, {"name": "high", "w": 1, "table": [1 - x for x in low]}]}
    match_rev = dict(match, levels=list(reversed(match["levels"])))
    for mt in (match, match_rev):
        for n in (2, 3, 4, 5):
            out.append({"factors": [size3, mt], "block": {"k": "cross", "design": [1, 2], "crossing": [2], "rcc": True,
                        "cs": [{"k": "MinimumTrials", "n": n}]}})
        out.append({"factors": [col, size3, mt], "block": {"k": "repeat", "cs": [{"k": "MinimumTrials", "n": 5}],
                    "b": {"k": "cross", "design": [0, 1, 2], "crossing": [0, 2], "rcc": True, "cs": []}}})
    # a crossed within-trial factor with one source in the crossing and one outside, and an Exclude on a level of the
    # outside source (RandomGen draws source combinations first and has to reject that level afterwards)
    xc, xw = _sf(0, ["red", "blue"]), _sf(1, ["red", "blue", "green"])
    xeq = [0] * 12
    xeq[1 * 4 + 1] = xeq[2 * 4 + 2] = 1
    xcon = {"id": 2, "name": "f2", "window": {"deps": [0, 1], "width": 1, "stride": 1, "start": None, "kind": "within"},
            "levels": [{"name": "con", "w": 1, "table": xeq}, {"name": "inc", "w": 1, "table": [1 - x for x in xeq]}]}
    out.append({"factors": [xc, xw, xcon], "block": {"k": "cross", "design": [0, 1, 2], "crossing": [0, 2], "rcc": True,
                "cs": [{"k": "Exclude", "f": 1, "l": 2}]}})
    out.append({"factors": [xc, xw, xcon], "block": {"k": "cross", "design": [0, 1, 2], "crossing": [2], "rcc": True,
                "cs": [{"k": "Exclude", "f": 1, "l": 2}, {"k": "MinimumTrials", "n": 3}]}})
    # ... and with the *same* number (2) of completions per level: parity of a four-level source, stretched by MinimumTrials
    num4 = _sf(1, ["1", "2", "3", "4"])
    par = {"id": 2, "name": "f2", "window": {"deps": [1], "width": 1, "stride": 1, "start": None, "kind": "within"},
           "levels": [{"name": "odd", "w": 1, "table": [0, 1, 0, 1, 0]}, {"name": "even", "w": 1, "table": [0, 0, 1, 0, 1]}]}
    for n in (3, 4):
        out.append({"factors": [num4, par], "block": {"k": "cross", "design": [1, 2], "crossing": [2], "rcc": True,
                    "cs": [{"k": "MinimumTrials", "n": n}]}})
    # the same with *weighted* derived levels and a leftover round as long as the number of crossing instances
    sz3 = _sf(1, ["a", "b", "c"])
    kind_t = [0, 1, 0, 0]
    kind = {"id": 2, "name": "f2", "window": {"deps": [1], "width": 1, "stride": 1, "start": None, "kind": "within"},
            "levels": [{"name": "big", "w": 2, "table": kind_t}, {"name": "tiny", "w": 1, "table": [0, 0, 1, 1]}]}
    for n in (5, 4, 8):
        out.append({"factors": [sz3, kind], "block": {"k": "repeat", "cs": [{"k": "MinimumTrials", "n": n}],
                    "b": {"k": "cross", "design": [1, 2], "crossing": [2], "rcc": True, "cs": []}}})
    out.append({"factors": [sz3, kind], "block": {"k": "cross", "design": [1, 2], "crossing": [2], "rcc": True,
                "cs": [{"k": "MinimumTrials", "n": 5}]}})
    out.mark()
    # a preamble (transition factor in the crossing) together with an Exclude on a basic level
    tr0 = _transition(3, 0, 2)
    for fid, lvl in ((1, 2), (1, 0)):
        out.append({"factors": [col, size3, tr0], "block": {"k": "cross", "design": [0, 1, 3], "crossing": [3], "rcc": False,
                    "cs": [{"k": "Exclude", "f": fid, "l": lvl}]}})
    out.append({"factors": [col, size3, tr0], "block": {"k": "cross", "design": [0, 1, 3], "crossing": [0, 3], "rcc": False,
                "cs": [{"k": "Exclude", "f": 1, "l": 1}]}})
    # ... with the factor that loses a level listed *first* in the design, so that further preamble choices are
    # numbered after it; and a two-trial preamble (window of width 3)
    for lvl in (2, 0):
        out.append({"factors": [col, size3, tr0], "block": {"k": "cross", "design": [1, 0, 3], "crossing": [0, 3], "rcc": True,
                    "cs": [{"k": "Exclude", "f": 1, "l": lvl}]}})
    out.append({"factors": [col, size3, tr0], "block": {"k": "cross", "design": [1, 0, 3], "crossing": [3], "rcc": True,
                "cs": [{"k": "Exclude", "f": 1, "l": 1}]}})
    out.mark()
    # windows with an explicit start (earlier and later than the automatic one), also over a weighted uncrossed factor
    for wts in (None, [2, 1]):
        src = _sf(1, ["x", "y"], wts)
        for width, start in ((2, 0), (2, 2), (2, 3), (1, 1), (3, 1)):
            size = 3 ** width
            tbl = [1 if (i % 3) == 1 else 0 for i in range(size)]
            wf = {"id": 2, "name": "f2", "window": {"deps": [1], "width": width, "stride": 1, "start": start, "kind": "window"},
                  "levels": [{"name": "A", "w": 1, "table": tbl}, {"name": "B", "w": 1, "table": [1 - x for x in tbl]}]}
            out.append({"factors": [col, src, wf], "block": {"k": "cross", "design": [0, 1, 2], "crossing": [0], "rcc": True,
                        "cs": [{"k": "MinimumTrials", "n": 4}]}})
            out.append({"factors": [col, src, wf], "block": {"k": "cross", "design": [0, 1, 2], "crossing": [0], "rcc": True,
                        "cs": [{"k": "MinimumTrials", "n": 4}, {"k": "AtMostKInARow", "n": 2, "f": 2, "l": 0}]}})
    # the same over a weighted uncrossed factor in blocks small enough to exhaust (2-3 trials)
    srcw = _sf(1, ["x", "y"], [2, 1])
    for width, start in ((1, 1), (2, 0), (1, 2)):
        size = 3 ** width
        tbl = [1 if (i % 3) == 1 else 0 for i in range(size)]
        wf = {"id": 2, "name": "f2", "window": {"deps": [1], "width": width, "stride": 1, "start": start, "kind": "window"},
              "levels": [{"name": "A", "w": 1, "table": tbl}, {"name": "B", "w": 1, "table": [1 - x for x in tbl]}]}
        for cs in ([], [{"k": "MinimumTrials", "n": 3}], [{"k": "AtMostKInARow", "n": 1, "f": 2, "l": 0}]):
            out.append({"factors": [col, srcw, wf], "block": {"k": "cross", "design": [0, 1, 2], "crossing": [0], "rcc": True, "cs": cs}})
    # ... and with the window factor in the crossing, where its start sets the preamble (trial count)
    for width, start in ((1, 2), (2, 3), (2, 0), (1, 1)):
        size = 3 ** width
        tbl = [1 if (i % 3) == 1 else 0 for i in range(size)]
        wf = {"id": 2, "name": "f2", "window": {"deps": [1], "width": width, "stride": 1, "start": start, "kind": "window"},
              "levels": [{"name": "A", "w": 1, "table": tbl}, {"name": "B", "w": 1, "table": [1 - x for x in tbl]}]}
        out.append({"factors": [col, srcw, wf], "block": {"k": "cross", "design": [0, 1, 2], "crossing": [0, 2], "rcc": True, "cs": []}})
    # early explicit starts whose level depends on *whether* the oldest window position exists (None before trial 0),
    # for an implied factor, a constrained one and a crossed one
    src2 = _sf(1, ["x", "y"])
    for width, start in ((2, 0), (3, 1), (3, 0)):
        size = 3 ** width
        first = [1 if (i // 3 ** (width - 1)) == 0 else 0 for i in range(size)]
        mixed = [1 if ((i // 3 ** (width - 1)) == 0) != (i % 3 == 1) else 0 for i in range(size)]
        for tbl in (first, mixed):
            wf = {"id": 2, "name": "f2", "window": {"deps": [1], "width": width, "stride": 1, "start": start, "kind": "window"},
                  "levels": [{"name": "A", "w": 1, "table": tbl}, {"name": "B", "w": 1, "table": [1 - x for x in tbl]}]}
            out.append({"factors": [col, src2, wf], "block": {"k": "cross", "design": [0, 1, 2], "crossing": [0, 1], "rcc": True,
                        "cs": []}})
            out.append({"factors": [col, src2, wf], "block": {"k": "cross", "design": [0, 1, 2], "crossing": [0, 1], "rcc": True,
                        "cs": [{"k": "AtMostKInARow", "n": 3, "f": 2, "l": 0}]}})
    out.mark()
    # uncrossed independent factor with excluded levels and a partial last chunk (RandomGen's leftover round)
    c3u = _sf(1, ["c1", "c2", "c3"])
    for n in (3, 5):
        for ex in ([2], [0, 2]):
            out.append({"factors": [C2f, c3u], "block": {"k": "cross", "design": [0, 1], "crossing": [0], "rcc": True,
                        "cs": [{"k": "MinimumTrials", "n": n}] + [{"k": "Exclude", "f": 1, "l": l} for l in ex]}})
            out.append({"factors": [C2f, c3u], "block": {"k": "repeat", "cs": [{"k": "MinimumTrials", "n": n}],
                        "b": {"k": "cross", "design": [0, 1], "crossing": [0], "rcc": True, "cs": [{"k": "Exclude", "f": 1, "l": l} for l in ex]}}})
    out.mark()
    # block-given constraints on a weighted factor outside the crossing, under Repeat (constraint objects are rewritten by desugaring)
    tone = _sf(1, ["hi", "lo"], [2, 1])
    for idx in (0, 1, -1):
        for reps in (2, 3):
            out.append({"factors": [C2f, tone], "block": {"k": "repeat", "cs": [{"k": "MinimumTrials", "n": 2 * reps}],
                        "b": {"k": "cross", "design": [0, 1], "crossing": [0], "rcc": True, "cs": [{"k": "Pin", "idx": idx, "f": 1, "l": 1}]}}})
    for kind in ("AtMostKInARow", "ExactlyK"):
        out.append({"factors": [C2f, tone], "block": {"k": "repeat", "cs": [{"k": "MinimumTrials", "n": 4}],
                    "b": {"k": "cross", "design": [0, 1], "crossing": [0], "rcc": True, "cs": [{"k": kind, "n": 1, "f": 1, "l": 1}]}}})
    out.mark()
    # block-scoped vs combinator-scoped run-length constraints under Repeat; Nest
    for k in (1, 2):
        inner = {"k": "cross", "design": [0, 1], "crossing": [0], "rcc": True, "cs": [{"k": "AtMostKInARow", "n": k, "f": 1, "l": 0}]}
        out.append({"factors": [c, t], "block": {"k": "repeat", "b": inner, "cs": [{"k": "MinimumTrials", "n": 6}]}})
        inner2 = {"k": "cross", "design": [0, 1], "crossing": [0], "rcc": True, "cs": []}
        out.append({"factors": [c, t], "block": {"k": "repeat", "b": inner2,
                    "cs": [{"k": "MinimumTrials", "n": 6}, {"k": "AtMostKInARow", "n": k, "f": 1, "l": 0}]}})
    out.mark()
    # several MinimumTrials on one block (the largest counts, whatever the order), also on a Repeat and its block
    m2a, m2b = _sf(0, ["r", "g"]), _sf(1, ["x", "y"])
    for ns in ([10, 6], [6, 10], [9, 2], [5, 7, 3]):
        out.append({"factors": [m2a, m2b], "block": {"k": "cross", "design": [0, 1], "crossing": [0, 1], "rcc": True,
                    "cs": [{"k": "MinimumTrials", "n": n} for n in ns]}})
    out.append({"factors": [m2a, m2b], "block": {"k": "repeat", "cs": [{"k": "MinimumTrials", "n": 5}],
                "b": {"k": "cross", "design": [0, 1], "crossing": [0, 1], "rcc": True, "cs": [{"k": "MinimumTrials", "n": 12}]}}})
    out.append({"factors": [m2a, m2b], "block": {"k": "repeat", "cs": [{"k": "MinimumTrials", "n": 12}, {"k": "MinimumTrials", "n": 8}],
                "b": {"k": "cross", "design": [0, 1], "crossing": [0, 1], "rcc": True, "cs": []}}})
    out.mark()
    # a weighted ElseLevel in a crossed within-trial factor (the else level's weight counts in the crossing size)
    ec, es = _sf(0, ["red", "blue"]), _sf(1, ["big", "small"])
    bold_t = [0] * 9
    bold_t[1 * 3 + 1] = 1
    for we in (2, 3):
        look = {"id": 2, "name": "f2", "window": {"deps": [0, 1], "width": 1, "stride": 1, "start": None, "kind": "within"},
                "levels": [{"name": "bold", "w": 1, "table": bold_t},
                           {"name": "plain", "w": we, "table": [1 - x for x in bold_t], "else": True}]}
        out.append({"factors": [ec, es, look], "block": {"k": "cross", "design": [0, 1, 2], "crossing": [2], "rcc": True, "cs": []}})
        out.append({"factors": [ec, es, look], "block": {"k": "cross", "design": [0, 1, 2], "crossing": [0, 2], "rcc": False, "cs": []}})
    out.mark()
    # Sequential on a crossed factor: alone, with MinimumTrials (partial last cycle), with another crossed factor,
    # under Repeat
    s3, s2 = _sf(0, ["c1", "c2", "c3"]), _sf(1, ["x", "y"])
    for cr in ([0], [0, 1]):
        for extra in ([], [{"k": "MinimumTrials", "n": 2 * (3 if cr == [0] else 6) - 1}]):
            out.append({"factors": [s3, s2], "block": {"k": "cross", "design": [0, 1], "crossing": cr, "rcc": True,
                        "cs": [{"k": "Sequential", "f": 0}] + extra}})
    out.append({"factors": [s3, s2], "block": {"k": "repeat", "cs": [{"k": "MinimumTrials", "n": 6}],
                "b": {"k": "cross", "design": [0, 1], "crossing": [0], "rcc": True, "cs": [{"k": "Sequential", "f": 0}]}}})
    # Sequential on a factor that shares its crossing with a Transition factor: the cycle starts after the preamble
    sq2, sqc, sq3 = _sf(0, ["a", "b"]), _sf(1, ["x", "y"]), _sf(0, ["a", "b", "c"])
    for first in (sq2, sq3):
        out.append({"factors": [first, sqc, _transition(2, 1, 2)], "block": {"k": "cross", "design": [1, 0, 2], "crossing": [0, 2],
                    "rcc": True, "cs": [{"k": "Sequential", "f": 0}]}})
    # Sequential on a weighted factor outside the crossing (it cycles through the level *copies*: big, big, small)
    wsz = _sf(1, ["big", "small"], [2, 1])
    c2s = _sf(0, ["r", "g"])
    for first, extra in ((s3, []), (s3, [{"k": "MinimumTrials", "n": 5}]), (c2s, [{"k": "MinimumTrials", "n": 4}]),
                         (c2s, [{"k": "MinimumTrials", "n": 6}])):
        out.append({"factors": [first, wsz], "block": {"k": "cross", "design": [0, 1], "crossing": [0], "rcc": True,
                    "cs": [{"k": "Sequential", "f": 1}] + extra}})
    out.append({"factors": [c2s, wsz], "block": {"k": "repeat", "cs": [{"k": "Sequential", "f": 1}, {"k": "MinimumTrials", "n": 4}],
                "b": {"k": "cross", "design": [0, 1], "crossing": [0], "rcc": True, "cs": []}}})
    # Sequential on the crossed factor of the outer block of a Nest (each of its trials is sustained over the inner
    # block): 3 and 4 levels against inner lengths 2 and 3, constraint on the outer block or on a Merge around the Nest
    s4 = _sf(0, ["c1", "c2", "c3", "c4"])
    i3 = _sf(1, ["x", "y", "z"])
    for outer_f, inner_f in ((s3, s2), (s4, i3), (s3, i3)):
        inner = {"k": "cross", "design": [1], "crossing": [1], "rcc": True, "cs": []}
        out.append({"factors": [outer_f, inner_f], "block": {"k": "nest", "cs": [], "align": None, "inner": inner,
                    "outer": {"k": "cross", "design": [0], "crossing": [0], "rcc": True, "cs": [{"k": "Sequential", "f": 0}]}}})
    out.append({"factors": [s3, s2], "block": {"k": "merge", "cs": [{"k": "Sequential", "f": 0}], "mode": "repeat", "align": None,
                "bs": [{"k": "nest", "cs": [], "align": None,
                        "inner": {"k": "cross", "design": [1], "crossing": [1], "rcc": True, "cs": []},
                        "outer": {"k": "cross", "design": [0], "crossing": [0], "rcc": True, "cs": []}}]}})
    out.mark()
    # weighted crossed levels with an incomplete crossing (require_complete_crossing=False): the exclusion removes a
    # combination that contains the weighted level, the weighted level itself, or acts through a derived level
    for ws in ([2, 1], [3, 1, 1]):
        wc = _sf(0, ["r", "b", "g"][:len(ws)], ws)
        sz = _sf(1, ["big", "small"])
        for cs in ([{"k": "Exclude", "f": 1, "l": 0}], [{"k": "Exclude", "f": 0, "l": 0}],
                   [{"k": "Exclude", "f": 0, "l": 1}, {"k": "MinimumTrials", "n": 6}]):
            out.append({"factors": [wc, sz], "block": {"k": "cross", "design": [0, 1], "crossing": [0, 1], "rcc": False, "cs": cs}})
    wc2 = _sf(0, ["r", "b"], [2, 1])
    sz2 = _sf(1, ["big", "small"])
    loud_t = [0] * 9
    loud_t[1 * 3 + 1] = 1          # (r, big)
    loud = {"id": 2, "name": "f2", "window": {"deps": [0, 1], "width": 1, "stride": 1, "start": None, "kind": "within"},
            "levels": [{"name": "yes", "w": 1, "table": loud_t}, {"name": "no", "w": 1, "table": [1 - x for x in loud_t]}]}
    for extra in ([], [{"k": "MinimumTrials", "n": 6}]):
        out.append({"factors": [wc2, sz2, loud], "block": {"k": "cross", "design": [0, 1, 2], "crossing": [0, 1], "rcc": False,
                    "cs": [{"k": "Exclude", "f": 2, "l": 0}] + extra}})
    out.mark()
    # an implied within-trial factor over a Transition factor and a basic factor, in both argument orders: it starts
    # when its latest dependency starts (trial 2), whichever is listed first
    wa, wb = _sf(0, ["r", "g"]), _sf(1, ["x", "y"])
    wt = _transition(2, 0, 2)
    for deps in ([2, 1], [1, 2]):
        hit = [0] * 9
        for k in range(9):
            a, b = k // 3, k % 3
            tval = a if deps[0] == 2 else b
            hit[k] = 1 if tval == 1 else 0          # "the transition factor has its first level"
        ww = {"id": 3, "name": "f3", "window": {"deps": deps, "width": 1, "stride": 1, "start": None, "kind": "within"},
              "levels": [{"name": "hit", "w": 1, "table": hit}, {"name": "miss", "w": 1, "table": [1 - x for x in hit]}]}
        out.append({"factors": [wa, wb, wt, ww], "block": {"k": "cross", "design": [0, 1, 2, 3], "crossing": [0, 1], "rcc": True, "cs": []}})
    out.mark()
    # Nest whose outer block crosses a complex-window factor (Transition; a window with an explicit later start): every
    # outer trial is sustained over the inner block, and so are the window's offsets and its start
    nA, nS = _sf(0, ["a1", "a2"]), _sf(10, ["s1", "s2"])
    ntr = _transition(1, 0, 2)
    nwin = dict(ntr, window={"deps": [0], "width": 2, "stride": 1, "start": 2, "kind": "window"})
    for der in (ntr, nwin):
        out.append({"factors": [nA, der, nS], "block": {"k": "nest", "cs": [], "align": "post preamble",
                    "outer": {"k": "cross", "design": [0, 1], "crossing": [0, 1], "rcc": True, "cs": []},
                    "inner": {"k": "cross", "design": [10], "crossing": [10], "rcc": True, "cs": []}}})
    out.mark()
    # a weighted Transition level in the crossing and a partial last round (RandomGen enforces such crossings by rejection)
    wc = _sf(0, ["red", "blue"])
    wtr = _transition(1, 0, 2)
    wtr["levels"][0]["w"] = 2
    out.append({"factors": [wc, wtr], "block": {"k": "cross", "design": [0, 1], "crossing": [1], "rcc": True, "cs": [{"k": "MinimumTrials", "n": 6}]}})
    out.append({"factors": [wc, wtr], "block": {"k": "repeat", "cs": [{"k": "MinimumTrials", "n": 6}],
                "b": {"k": "cross", "design": [0, 1], "crossing": [1], "rcc": True, "cs": []}}})
    out.mark()
    # an ElseLevel that is not the last level of its factor (within-trial and Transition)
    e3 = _sf(0, ["red", "green", "blue"])
    ekind = {"id": 1, "name": "f1", "window": {"deps": [0], "width": 1, "stride": 1, "start": None, "kind": "within"},
             "levels": [{"name": "warm", "w": 1, "table": [0, 1, 0, 0]}, {"name": "other", "w": 1, "table": [1, 0, 1, 0], "else": True},
                        {"name": "cool", "w": 1, "table": [0, 0, 0, 1]}]}
    efirst = dict(ekind, levels=[ekind["levels"][1], ekind["levels"][0], ekind["levels"][2]])
    for fac in (ekind, efirst):
        out.append({"factors": [e3, fac], "block": {"k": "cross", "design": [0, 1], "crossing": [0], "rcc": True, "cs": []}})
        out.append({"factors": [e3, fac], "block": {"k": "cross", "design": [0, 1], "crossing": [0], "rcc": True,
                    "cs": [{"k": "AtMostKInARow", "n": 1, "f": 1, "l": 1}]}})
    etr = _transition(1, 0, 2)
    etr["levels"] = [dict(etr["levels"][1], **{"else": True}), etr["levels"][0]]
    out.append({"factors": [_sf(0, ["r", "g"]), etr], "block": {"k": "cross", "design": [0, 1], "crossing": [0, 1], "rcc": True, "cs": []}})
    out.mark()
    # two *implied* within-trial factors, the dependent one listed before the one it reads (and the plain order)
    ic = _sf(0, ["r", "g"])
    ii1 = {"id": 1, "name": "f1", "window": {"deps": [0], "width": 1, "stride": 1, "start": None, "kind": "within"},
           "levels": [{"name": "isr", "w": 1, "table": [0, 1, 0]}, {"name": "notr", "w": 1, "table": [1, 0, 1]}]}
    ii2 = {"id": 2, "name": "f2", "window": {"deps": [1], "width": 1, "stride": 1, "start": None, "kind": "within"},
           "levels": [{"name": "yes", "w": 1, "table": [0, 1, 0]}, {"name": "no", "w": 1, "table": [1, 0, 1]}]}
    for order in ([0, 2, 1], [2, 1, 0], [0, 1, 2]):
        out.append({"factors": [ic, ii1, ii2], "block": {"k": "cross", "design": order, "crossing": [0], "rcc": True, "cs": []}})
    # two crossed within-trial factors over overlapping sources (region of the open finding F32)
    ia, ib = _sf(0, ["1", "2"]), _sf(1, ["1", "2"])
    ieq = [0] * 9
    ieq[4] = ieq[8] = 1
    id1 = {"id": 2, "name": "f2", "window": {"deps": [0, 1], "width": 1, "stride": 1, "start": None, "kind": "within"},
           "levels": [{"name": "eq", "w": 1, "table": ieq}, {"name": "ne", "w": 1, "table": [1 - x for x in ieq]}]}
    id2 = {"id": 3, "name": "f3", "window": {"deps": [0], "width": 1, "stride": 1, "start": None, "kind": "within"},
           "levels": [{"name": "one", "w": 1, "table": [0, 1, 0]}, {"name": "two", "w": 1, "table": [1, 0, 1]}]}
    out.append({"factors": [ia, ib, id1, id2], "block": {"k": "cross", "design": [0, 1, 2, 3], "crossing": [2, 3], "rcc": True, "cs": []}})
    out.mark()
    # a within-trial derived factor over another derived factor, both uncrossed but kept in the problem by a
    # constraint, listed in the design *before* the factor it depends on (fill-in order must follow dependencies)
    dc, dw, dz = _sf(0, ["r", "g"]), _sf(1, ["r", "g"]), _sf(2, ["big", "small"])
    eqt = [0] * 9
    eqt[4] = eqt[8] = 1
    cong = {"id": 3, "name": "f3", "window": {"deps": [0, 1], "width": 1, "stride": 1, "start": None, "kind": "within"},
            "levels": [{"name": "con", "w": 1, "table": eqt}, {"name": "inc", "w": 1, "table": [1 - x for x in eqt]}]}
    hard_t = [0] * 9
    hard_t[1 * 3 + 2] = 1          # (big, inc)
    diff = {"id": 4, "name": "f4", "window": {"deps": [2, 3], "width": 1, "stride": 1, "start": None, "kind": "within"},
            "levels": [{"name": "hard", "w": 1, "table": hard_t}, {"name": "easy", "w": 1, "table": [1 - x for x in hard_t]}]}
    for order in ([0, 1, 2, 4, 3], [4, 3, 0, 1, 2], [0, 1, 2, 3, 4]):
        out.append({"factors": [dc, dw, dz, cong, diff], "block": {"k": "cross", "design": order, "crossing": [0, 2], "rcc": True,
                    "cs": [{"k": "AtMostKInARow", "n": 3, "f": 4, "l": 0}]}})
    out.mark()
    # an implied (uncrossed, unconstrained) derived factor whose window covers two factors and two trials, with a
    # table that tells the positions apart (is a[0], the current level of the first factor, its first level?)
    ca, cb = _sf(0, ["r", "g"]), _sf(1, ["r", "g"])
    for kind, width in (("transition", 2), ("window", 2), ("window", 3)):
        size = 3 ** (2 * width)
        def key_digits(i, n=2 * width):
            ds = []
            for _ in range(n):
                ds.append(i % 3)
                i //= 3
            return list(reversed(ds))          # a[1-width..0], b[1-width..0]
        tblx = [1 if key_digits(i)[width - 1] == 1 else 0 for i in range(size)]
        wf2 = {"id": 2, "name": "f2", "window": {"deps": [0, 1], "width": width, "stride": 1, "start": None, "kind": kind},
               "levels": [{"name": "hit", "w": 1, "table": tblx}, {"name": "miss", "w": 1, "table": [1 - x for x in tblx]}]}
        out.append({"factors": [ca, cb, wf2], "block": {"k": "cross", "design": [0, 1, 2], "crossing": [0, 1], "rcc": True, "cs": []}})
    out.mark()
    # Repeat of a block with a preamble (Transition in the crossing) and constraints given to the block: the
    # repetition windows overlap by the preamble, [0,5) and [4,9)
    colr, shp = _sf(0, ["r", "g"]), _sf(1, ["circle", "square"])
    trr = _transition(3, 0, 2)
    for cs in ([{"k": "Pin", "idx": -1, "f": 1, "l": 0}], [{"k": "AtMostKInARow", "n": 1, "f": 1, "l": 0}],
               [{"k": "Pin", "idx": -1, "f": 1, "l": 0}, {"k": "AtMostKInARow", "n": 1, "f": 1, "l": 0}],
               [{"k": "ExactlyK", "n": 2, "f": 1, "l": 1}]):
        out.append({"factors": [colr, shp, trr], "block": {"k": "repeat", "cs": [{"k": "MinimumTrials", "n": 9}],
                    "b": {"k": "cross", "design": [0, 1, 3], "crossing": [0, 3], "rcc": True, "cs": cs}}})
    # Nest whose outer block has an incomplete crossing (an excluded level / combination): outer trials x inner length
    o3, ob, ins = _sf(0, ["a1", "a2", "a3"]), _sf(1, ["b1", "b2"]), _sf(10, ["s1", "s2"])
    out.append({"factors": [o3, ins], "block": {"k": "nest", "cs": [], "align": None,
                "outer": {"k": "cross", "design": [0], "crossing": [0], "rcc": False, "cs": [{"k": "Exclude", "f": 0, "l": 2}]},
                "inner": {"k": "cross", "design": [10], "crossing": [10], "rcc": True, "cs": []}}})
    bad_t = [0] * 9
    bad_t[1 * 3 + 1] = 1
    bad = {"id": 2, "name": "f2", "window": {"deps": [0, 1], "width": 1, "stride": 1, "start": None, "kind": "within"},
           "levels": [{"name": "bad", "w": 1, "table": bad_t}, {"name": "ok", "w": 1, "table": [1 - x for x in bad_t]}]}
    oa2 = _sf(0, ["a1", "a2"])
    out.append({"factors": [oa2, ob, bad, ins], "block": {"k": "nest", "cs": [], "align": None,
                "outer": {"k": "cross", "design": [0, 1, 2], "crossing": [0, 1], "rcc": False, "cs": [{"k": "Exclude", "f": 2, "l": 0}]},
                "inner": {"k": "cross", "design": [10], "crossing": [10], "rcc": True, "cs": []}}})
    out.mark()
    # combinators of combinators: Repeat of a Merge of a Nest (sustain counts must survive the outer combinator)
    ra, rb, rc = _sf(0, ["a1", "a2"]), _sf(10, ["b1", "b2"]), _sf(11, ["c1", "c2"])
    nestd = {"k": "nest", "cs": [], "align": None,
             "outer": {"k": "cross", "design": [0], "crossing": [0], "rcc": True, "cs": []},
             "inner": {"k": "cross", "design": [10, 11], "crossing": [10, 11], "rcc": True, "cs": []}}
    for cs in ([], [{"k": "MinimumTrials", "n": 10}], [{"k": "MinimumTrials", "n": 16}]):
        out.append({"factors": [ra, rb, rc], "block": {"k": "repeat", "cs": cs,
                    "b": {"k": "merge", "bs": [nestd], "cs": [], "mode": "repeat", "align": None}}})
    out.append({"factors": [ra, rb, rc], "block": {"k": "merge", "bs": [nestd], "cs": [{"k": "MinimumTrials", "n": 10}], "mode": "repeat", "align": None}})
    out.mark()
    # repeated blocks whose own constraint is on a derived factor with a complex window that is *not* crossed:
    # a Transition, and a width-2 window with the explicit start 0 (it has a level in the first trial of every window)
    rcol, rsz = _sf(0, ["r", "g"]), _sf(1, ["x", "y"])
    rtr = _transition(3, 0, 2)
    out.append({"factors": [rcol, rtr], "block": {"k": "repeat", "cs": [{"k": "MinimumTrials", "n": 6}],
                "b": {"k": "cross", "design": [0, 3], "crossing": [0], "rcc": True, "cs": [{"k": "AtMostKInARow", "n": 1, "f": 3, "l": 0}]}}})
    out.append({"factors": [rcol, rsz, rtr], "block": {"k": "repeat", "cs": [{"k": "MinimumTrials", "n": 8}],
                "b": {"k": "cross", "design": [0, 1, 3], "crossing": [0, 1], "rcc": True, "cs": [{"k": "ExactlyK", "n": 1, "f": 3, "l": 0}]}}})
    same2 = [1 if (k // 3) == (k % 3) and k % 3 != 0 else 0 for k in range(9)]
    w0 = {"id": 2, "name": "f2", "window": {"deps": [0], "width": 2, "stride": 1, "start": 0, "kind": "window"},
          "levels": [{"name": "yes", "w": 1, "table": same2}, {"name": "no", "w": 1, "table": [1 - x for x in same2]}]}
    for cs in ([{"k": "ExactlyK", "n": 1, "f": 2, "l": 0}], [{"k": "AtMostKInARow", "n": 1, "f": 2, "l": 1}]):
        out.append({"factors": [rcol, rsz, w0], "block": {"k": "repeat", "cs": [{"k": "MinimumTrials", "n": 8}],
                    "b": {"k": "cross", "design": [0, 1, 2], "crossing": [0, 1], "rcc": True, "cs": cs}}})
    out.mark()
    # MinimumTrials on both blocks of a Nest (each counts in its own block's trials), also together with one on the Nest
    na, nb = _sf(0, ["A1", "A2"]), _sf(10, ["B1", "B2"])
    for mo, mi, mn in ((4, 4, None), (4, 2, None), (2, 4, None), (4, 3, 20)):
        out.append({"factors": [na, nb], "block": {"k": "nest", "cs": ([{"k": "MinimumTrials", "n": mn}] if mn else []), "align": None,
                    "outer": {"k": "cross", "design": [0], "crossing": [0], "rcc": True, "cs": [{"k": "MinimumTrials", "n": mo}]},
                    "inner": {"k": "cross", "design": [10], "crossing": [10], "rcc": True, "cs": [{"k": "MinimumTrials", "n": mi}]}}})
    # small enough to exhaust with every strategy: a partial outer round at the end (sustained crossing)
    qa, qb = _sf(0, ["a1", "a2"]), _sf(10, ["b1", "b2"])
    for mt in (6, 10):
        out.append({"factors": [qa, qb], "block": {"k": "nest", "cs": [{"k": "MinimumTrials", "n": mt}], "align": None,
                    "outer": {"k": "cross", "design": [0], "crossing": [0], "rcc": True, "cs": []},
                    "inner": {"k": "cross", "design": [10], "crossing": [10], "rcc": True, "cs": []}}})
    # MinimumTrials given to the Nest itself, not a multiple of the inner length (rounded up to whole inner runs)
    oa, isx = _sf(0, ["A1", "A2"]), _sf(10, ["s1", "s2", "s3"])
    for mt in (7, 10, 6, 5):
        out.append({"factors": [oa, isx], "block": {"k": "nest", "cs": [{"k": "MinimumTrials", "n": mt}], "align": None,
                    "outer": {"k": "cross", "design": [0], "crossing": [0], "rcc": True, "cs": []},
                    "inner": {"k": "cross", "design": [10], "crossing": [10], "rcc": True, "cs": []}}})
    o, i1, i2 = _sf(0, ["o1", "o2"]), _sf(10, ["i1", "i2"]), _sf(11, ["u", "v"])
    for ics in ([], [{"k": "AtMostKInARow", "n": 1, "f": 11, "l": 0}], [{"k": "Pin", "idx": 0, "f": 11, "l": 1}]):
        for ocs in ([], [{"k": "Pin", "idx": -1, "f": 0, "l": 0}]):
            out.append({"factors": [o, i1, i2], "block": {"k": "nest", "cs": [], "align": None,
                        "outer": {"k": "cross", "design": [0], "crossing": [0], "rcc": True, "cs": ocs},
                        "inner": {"k": "cross", "design": [10, 11], "crossing": [10], "rcc": True, "cs": ics}}})
    out.mark()
    # a window over TWO factors with an early explicit start (BeforeStart alternatives for each factor's older
    # positions), kept in the encoding by a constraint or by the crossing
    tc, ts = _sf(0, ["r", "g"]), _sf(1, ["x", "y"])
    for width, start in ((2, 0), (3, 1)):
        size = 9 ** width
        def _digits(k, n=2 * width):
            ds = []
            for _ in range(n):
                ds.append(k % 3)
                k //= 3
            return ds[::-1]
        tbl = [1 if (sum(_digits(k)) % 2 == 1) else 0 for k in range(size)]
        wf2 = {"id": 2, "name": "f2", "window": {"deps": [0, 1], "width": width, "stride": 1, "start": start, "kind": "window"},
               "levels": [{"name": "keep", "w": 1, "table": tbl}, {"name": "drop", "w": 1, "table": [1 - x for x in tbl]}]}
        out.append({"factors": [tc, ts, wf2], "block": {"k": "cross", "design": [0, 1, 2], "crossing": [0, 1], "rcc": True,
                    "cs": [{"k": "AtMostKInARow", "n": 2, "f": 2, "l": 0}]}})
        out.append({"factors": [tc, ts, wf2], "block": {"k": "cross", "design": [0, 1, 2], "crossing": [0, 1], "rcc": True,
                    "cs": [{"k": "ExactlyK", "n": 2, "f": 2, "l": 1}]}})
    # two within-trial derived factors in one crossing together with all of their sources (the crossing is incomplete:
    # only the consistent combinations occur)
    qa, qb = _sf(0, ["a1", "a2"]), _sf(1, ["b1", "b2"])
    qd1 = {"id": 2, "name": "f2", "window": {"deps": [0], "width": 1, "stride": 1, "start": None, "kind": "within"},
           "levels": [{"name": "isa1", "w": 1, "table": [0, 1, 0]}, {"name": "nota1", "w": 1, "table": [0, 0, 1]}]}
    qd2 = {"id": 3, "name": "f3", "window": {"deps": [1], "width": 1, "stride": 1, "start": None, "kind": "within"},
           "levels": [{"name": "isb1", "w": 1, "table": [0, 1, 0]}, {"name": "notb1", "w": 1, "table": [0, 0, 1]}]}
    for crossing in ([0, 1, 2, 3], [2, 3, 0, 1], [0, 2, 3]):
        out.append({"factors": [qa, qb, qd1, qd2], "block": {"k": "cross", "design": [0, 1, 2, 3], "crossing": crossing,
                    "rcc": False, "cs": []}})
    # Exclude on a level of a crossed within-trial derived factor together with a preamble (a crossed Transition):
    # the preamble trial is drawn freely and must not carry the excluded level either
    ea, eb = _sf(0, ["1", "2", "3"]), _sf(1, ["1", "2", "3"])
    lt = [1 if (k // 4) and (k % 4) and (k // 4) < (k % 4) else 0 for k in range(16)]
    eq_ = [1 if (k // 4) and (k % 4) and (k // 4) == (k % 4) else 0 for k in range(16)]
    gt = [1 if (k // 4) and (k % 4) and (k // 4) > (k % 4) else 0 for k in range(16)]
    rel = {"id": 2, "name": "f2", "window": {"deps": [0, 1], "width": 1, "stride": 1, "start": None, "kind": "within"},
           "levels": [{"name": "lt", "w": 1, "table": lt}, {"name": "eq", "w": 1, "table": eq_}, {"name": "gt", "w": 1, "table": gt}]}
    erep = _transition(3, 0, 3)
    for crossing in ([2, 3], [3, 2]):
        out.append({"factors": [ea, eb, rel, erep], "block": {"k": "cross", "design": [0, 1, 2, 3], "crossing": crossing,
                    "rcc": False, "cs": [{"k": "Exclude", "f": 2, "l": 1}]}})
    out.mark()
    # stride 2 with an explicit start other than the automatic one (finding F33): the k-th application reads the window
    # ending at trial start + 2k; kept in the encoding by ExactlyK (run-length constraints on strided factors are
    # outside the documented meaning)
    s_col = _sf(0, ["r", "g"])
    for width, start, n in ((1, 1, 4), (2, 2, 5), (2, 0, 4), (2, 3, 6), (1, 2, 5)):
        size = 3 ** width
        t0 = [1 if k % 3 == 1 else 0 for k in range(size)]
        wf = {"id": 1, "name": "f1", "window": {"deps": [0], "width": width, "stride": 2, "start": start, "kind": "window"},
              "levels": [{"name": "isr", "w": 1, "table": t0}, {"name": "notr", "w": 1, "table": [1 - x for x in t0]}]}
        out.append({"factors": [s_col, wf], "block": {"k": "cross", "design": [0, 1], "crossing": [0], "rcc": True,
                    "cs": [{"k": "MinimumTrials", "n": n}, {"k": "ExactlyK", "n": 1, "f": 1, "l": 0}]}})
    # Nest whose outer block crosses a window factor with an early explicit start (finding F34)
    na0, nb0 = _sf(0, ["1", "2"]), _sf(10, ["x", "y"])
    for width in (3, 2):
        top = 3 ** (width - 1)
        tp = [1 if (k // top) != 0 and (k // top) == (k % 3) else 0 for k in range(3 ** width)]
        wf = {"id": 1, "name": "f1", "window": {"deps": [0], "width": width, "stride": 1, "start": 0, "kind": "window"},
              "levels": [{"name": "p", "w": 1, "table": tp}, {"name": "q", "w": 1, "table": [1 - x for x in tp]}]}
        out.append({"factors": [na0, wf, nb0], "block": {"k": "nest", "cs": [], "align": None,
                    "outer": {"k": "cross", "design": [0, 1], "crossing": [0, 1], "rcc": True, "cs": []},
                    "inner": {"k": "cross", "design": [10], "crossing": [10], "rcc": True, "cs": []}}})
    return out


# ------------------------------------------------------------ known regions

def classify_region(desc):
    """Names of known-finding / undefined regions a description falls into."""
    out = set()
    return out


# ------------------------------------------------------------------ running

STRATS = {"IterateSATGen": sp.IterateSATGen, "RandomGen": sp.RandomGen, "CMSGen": sp.CMSGen, "UniGen": sp.UniGen,
          "SMGen": sp.SMGen}


class CallTimeout(BaseException):
    """Raised by the alarm; a BaseException so that the library's `except Exception` cannot swallow it."""


def _alarm(signum, frame):
    raise CallTimeout()


def synth(block, n, strat, timeout=25):
    """synthesize_trials with a wall-clock limit (SIGALRM; pure-Python loops are interruptible)."""
    import signal
    old = signal.signal(signal.SIGALRM, _alarm)
    signal.alarm(timeout)
    try:
        return quiet(sp.synthesize_trials, block, n, STRATS[strat] if isinstance(strat, str) else strat)
    finally:
        signal.alarm(0)
        signal.signal(signal.SIGALRM, old)


def synth_isolated(desc, n, strat, timeout=60):
    """The same call in a child process: ('ok', exps) | ('exc', name, msg) | ('died', status) | ('timeout',)"""
    env = dict(os.environ)
    try:
        p = subprocess.run([sys.executable, "-m", "harness.worker"], input=json.dumps({"desc": desc, "strategy": strat, "n": n}),
                           capture_output=True, text=True, timeout=timeout, env=env,
                           cwd=os.path.dirname(os.path.dirname(os.path.abspath(__file__))))
    except subprocess.TimeoutExpired:
        return ("timeout",)
    for line in p.stdout.splitlines():
        if line.startswith("@@RESULT@@"):
            out = json.loads(line[len("@@RESULT@@"):])
            if "ok" in out:
                return ("ok", out["ok"])
            if out.get("timeout"):
                return ("timeout",)
            return ("exc", out["exc"], out["msg"])
    return ("died", p.returncode, (p.stdout + p.stderr)[-300:])


def synth_sequence(jobs, timeout=90):
    """Several synthesize_trials calls one after the other in ONE child process: list of ('ok', exps) | ('exc', name, msg),
    or None when the child died / timed out."""
    try:
        p = subprocess.run([sys.executable, "-m", "harness.worker"], input=json.dumps({"jobs": jobs}), capture_output=True,
                           text=True, timeout=timeout, cwd=os.path.dirname(os.path.dirname(os.path.abspath(__file__))))
    except subprocess.TimeoutExpired:
        return None
    for line in p.stdout.splitlines():
        if line.startswith("@@RESULT@@"):
            out = json.loads(line[len("@@RESULT@@"):])
            if any(r.get("timeout") for r in out["results"]):
                return None
            return [("ok", r["ok"]) if "ok" in r else ("exc", r["exc"], r["msg"]) for r in out["results"]]
    return None


def random_space(block):
    """Number of candidate keys RandomGen would have to walk through to exhaust the design (None if unknown)."""
    from sweetpea._internal.sampling_strategy.random import UCSolutionEnumerator
    import signal
    old = signal.signal(signal.SIGALRM, _alarm)
    signal.alarm(8)
    try:
        if quiet(block.show_errors):
            return 0
        en = quiet(UCSolutionEnumerator, block)
        n = block.trials_per_sample()
        rounds = (n - en._preamble_size) // en.crossing_size
        return en.preamble_solution_count() * pow(en.solution_count(), rounds) * en.leftover_solution_count()
    except CallTimeout:
        return 10 ** 9            # counting alone is too slow: treat the space as too large
    except Exception:
        return None
    finally:
        signal.alarm(0)
        signal.signal(signal.SIGALRM, old)


class Case:
    """One generated design with everything the oracles computed about it (lazily)."""

    def __init__(self, ctx, desc):
        self.ctx = ctx
        self.desc = desc
        self.built = None
        self.reject = None
        self.geo = None
        self._valid = "unset"
        self._sat = None
        self._space = "unset"

    def build(self):
        try:
            self.built = D.build(self.desc)
        except Exception as e:     # any exception from a constructor = design not accepted
            self.reject = "%s: %s" % (type(e).__name__, str(e)[:200])
        self.geo = lean_geo(self.ctx, self.desc)
        b = self.desc["block"]
        if b.get("align") == "post preamble" and (b["k"] == "multicross" or (
                b["k"] == "merge" and all(x["k"] == "cross" for x in b.get("bs", [])))):
            # the geometry the same design has when every crossing is laid out from its own preamble: where it
            # coincides with the documented POST_PREAMBLE geometry the open finding F22 cannot show (see regions)
            g2 = lean_geo(self.ctx, dict(self.desc, block=dict(b, align="parallel start")))
            self.geo["parallel"] = {"n": g2["n"], "weights": g2["weights"]}
        return self.built is not None

    def fresh_block(self):
        return D.build(self.desc).block

    def valid_seqs(self):
        if self._valid == "unset":
            v = lean_valid_seqs(self.ctx, self.desc)
            self._valid = None if v is None else v
        return self._valid

    def random_ok(self, bound=RANDOM_SPACE):
        """Is RandomGen's candidate space small enough to run it to exhaustion / through rejection?"""
        if self._space == "unset":
            self._space = random_space(self.fresh_block())
        return self._space is None or self._space <= bound

    def exhaust(self, strat):
        """(experiments, exhausted?) asking for more than the cap."""
        exps = synth(self.fresh_block(), CAP_SOLUTIONS + 1, strat, timeout=40)
        return exps, len(exps) <= CAP_SOLUTIONS


def multiplicity(desc, seq):
    """How many distinct solutions print as this sequence: product, over trials,
    of the weights of the levels of weighted simple factors outside every crossing."""
    fs = {f["id"]: f for f in desc["factors"]}
    crossed = set()
    def walk(b):
        if b["k"] == "cross":
            crossed.update(b["crossing"])
        elif b["k"] == "multicross":
            for c in b["crossings"]:
                crossed.update(c)
        for key in ("b", "outer", "inner"):
            if key in b:
                walk(b[key])
        for x in b.get("bs", []):
            walk(x)
    walk(desc["block"])
    # a Sequential factor runs through its level copies in a fixed order: one solution per printed sequence
    sequential = {c["f"] for c in D.all_constraints(desc["block"]) if c["k"] == "Sequential"}
    m = 1
    for fid, col in seq:
        f = fs[fid]
        if f["window"] is None and fid not in crossed and fid not in sequential:
            for v in col:
                if v is not None:
                    m *= f["levels"][v]["w"]
    return m


def fmt_seq(desc, seq):
    return json.dumps(D.seq_to_exp(desc, seq), sort_keys=True)
