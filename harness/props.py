"""Registry: for each property, which correspondences, oracles and budgets make up its check."""
from . import i3_card, i1_logic, i5_comb, i4_text
from . import oracles_design as OD
from . import i11_api
from . import oracles_design2 as OD2
from . import i7_layout
from . import i8_pipeline
from . import i9_randomgen
from . import i10_implied
from . import i9f_fill

TB_COMMON = [
    "Lean 4.33.0 kernel (thorough tier: re-checked with leanchecker)",
    "axioms: subset of {propext, Classical.choice, Quot.sound}, listed per theorem under coverage.theorems",
    "hand-written Lean model; tied to /repo only by the correspondence run of this check (differential, bounded generator)",
    "Lean driver's JSON encoding/decoding and the harness's canonicalisation",
    "CPython and pycryptosat (used by the oracle to enumerate models of emitted clauses)",
]

def _replay27(ctx, r):
    with i4_text._Tmp() as tmp:
        x = i4_text.c27_case(r["vals"], r["nv"], r["support"], tmp)
        if x:
            ctx.fail("C27: " + x, r)


def _replay28(ctx, r):
    with i4_text._Tmp() as tmp:
        if r.get("iterate"):
            x = i4_text.c28_iterate(r["vals"], r["reqs"], r["nv"], r["support"], tmp)
        else:
            x = i4_text.c28_case(r["vals"], r["reqs"], r["nv"], tmp, r.get("sol"))
        if x:
            ctx.fail("C28: " + x, r)


TB_DESIGN = TB_COMMON + [
    "SPModel.Spec (the reference semantics) is my reading of the documentation; the generator stays inside the regions where the documentation defines the meaning (DESIGN.md 3.2)",
    "SAT back ends (pycryptosat, pycmsgen, pyunigen) return models of the formula they are given",
]


def _design_prop(oracle, quick=60, thorough=600, extra_assumptions=()):
    return {
        "correspondence": [],
        "oracle": [oracle],
        "oracle_budget": {"quick": quick, "thorough": thorough},
        "search_budget": 120,
        "replay": OD.replay_design,
        "trusted_base": TB_DESIGN,
        "assumptions": ["designs come from the bounded generator of harness/i12_oracle.py (<= 3 simple factors, <= 2 derived, <= ~8 trials)"] + list(extra_assumptions),
    }


REGISTRY = {
    "C20": dict(_design_prop(i11_api.oracle_c20, quick=30, thorough=300), correspondence=[i11_api.corr_api]),
    "C21": {
        "correspondence": [i11_api.corr_api],
        "oracle": [i11_api.oracle_c21],
        "oracle_budget": {"quick": 20, "thorough": 200},
        "trusted_base": TB_COMMON + ["the printed table is parsed by splitting on ' | ' (level names without that separator)", "float formatting of percentages is compared numerically (1e-9), never as text"],
        "assumptions": ["level names are strings"],
    },
    "C05": dict(_design_prop(OD2.oracle_c05, quick=50), correspondence=[i9_randomgen.corr_randomgen, i9f_fill.corr_fill]),
    "C18": dict(_design_prop(OD2.oracle_c18, quick=30), correspondence=[i7_layout.corr_sharing],
                oracle=[OD2.oracle_c18, OD2.oracle_c18_blocks]),
    "C19": _design_prop(OD2.oracle_c19),
    "C22": _design_prop(OD2.oracle_c22),
    "C14": dict(_design_prop(OD2.oracle_c14, quick=40), correspondence=[i7_layout.corr_layout, i7_layout.corr_decode]),
    "C15": dict(_design_prop(OD2.oracle_c15, quick=50), correspondence=[i10_implied.corr_implied, i8_pipeline.corr_pipeline]),
    "C23": _design_prop(OD2.oracle_c23),
    "C24": _design_prop(OD2.oracle_c24),
    "C25": dict(_design_prop(OD2.oracle_c25), correspondence=[i8_pipeline.corr_pipeline]),
    "C26": dict(_design_prop(OD2.oracle_c26, quick=50), correspondence=[i8_pipeline.corr_pipeline]),
    "C29": _design_prop(OD2.oracle_c29),
    "C01": dict(_design_prop(OD.oracle_c01, quick=75), correspondence=[i7_layout.corr_kinarow, i8_pipeline.corr_pipeline, i10_implied.corr_implied],
                oracle=[OD.oracle_c01_latin, OD.oracle_c01, i7_layout.oracle_kinarow]),
    "C02": dict(_design_prop(OD.oracle_c02, quick=50), correspondence=[i8_pipeline.corr_pipeline]),
    "C03": dict(_design_prop(OD.oracle_c03, quick=50), correspondence=[i8_pipeline.corr_pipeline]),
    "C04": dict(_design_prop(OD.oracle_c04, quick=50), correspondence=[i9_randomgen.corr_randomgen, i9f_fill.corr_fill],
                oracle=[OD.oracle_c04_latin, OD.oracle_c04]),
    "C06": dict(_design_prop(OD.oracle_c06, quick=50), correspondence=[i9_randomgen.corr_randomgen, i9f_fill.corr_fill]),
    "C07": dict(_design_prop(OD.oracle_c07, quick=45), correspondence=[i8_pipeline.corr_pipeline, i9_randomgen.corr_randomgen, i9f_fill.corr_fill]),
    "C08": dict(_design_prop(OD.oracle_c08, quick=50), correspondence=[i8_pipeline.corr_pipeline],
                oracle=[OD.oracle_c08_latin, OD.oracle_c08]),
    "C09": _design_prop(OD.oracle_c09),
    "C16": dict(_design_prop(OD.oracle_c16, quick=50), correspondence=[i7_layout.corr_decode],
                oracle=[lambda ctx, b: OD2.reuse_probe(ctx, "C16"), OD.oracle_c16]),
    "C17": dict(_design_prop(OD.oracle_c17, quick=50), correspondence=[i7_layout.corr_conforms]),
    "C27": {
        "correspondence": [i4_text.corr_text, i4_text.corr_sample_lines],
        "oracle": [i4_text.oracle_c27],
        "oracle_budget": {"quick": 20, "thorough": 240},
        "replay": _replay27,
        "trusted_base": TB_COMMON + ["str.split / int() / str(int): text is modelled as token lines; the driver's tokenizer and renderer are checked per instance (rendered text compared byte for byte, re-tokenised text equals the token lines)",
                                     "pycryptosat returns a model of the clauses it was given (every returned model is re-checked by the oracle)"],
        "assumptions": ["no clause is empty (the compiler never emits one; both readers silently drop empty clauses)"],
    },
    "C28": {
        "correspondence": [i4_text.corr_opb, lambda ctx: i3_card.corr_card(ctx, include=("assert",))],
        "oracle": [i4_text.oracle_c28],
        "oracle_budget": {"quick": 20, "thorough": 240},
        "replay": _replay28,
        "trusted_base": TB_COMMON + ["Gurobi is absent: the OPB text is given its standard pseudo-Boolean meaning (SPModel.Text.OpbRow.holds); what an ILP solver does with it is not observed"],
        "assumptions": ["request variables are positive literals"],
    },
    "C13": {
        "correspondence": [i5_comb.corr_comb],
        "oracle": [i5_comb.oracle_c13],
        "oracle_budget": {"quick": 25, "thorough": 300},
        "replay": lambda ctx, r: (lambda x: ctx.fail("C13: " + x, r) if x else None)(i5_comb.c13_case(r["kind"], r["params"])),
        "trusted_base": TB_COMMON + ["the continuation machine with its memo table is tied to the model's clean recursion by correspondence only (not by a refinement proof)"],
        "assumptions": ["parameters in range: sizes > 0, m <= n, index below the reported count"],
    },
    "C11": {
        "correspondence": [i1_logic.corr_logic],
        "oracle": [i1_logic.oracle_c11],
        "oracle_budget": {"quick": 25, "thorough": 300},
        "replay": lambda ctx, r: (lambda x: ctx.fail(x["what"], x) if x else None)(
            i1_logic.c11_case(i1_logic.from_json(r["f"]), r["next"], r["conversion"])),
        "trusted_base": TB_COMMON + ["str() of a namedtuple of ints is an injective cache key", "Python's list.sort is stable"],
        "assumptions": ["next_variable is larger than every variable of the formula"],
    },
    "C12": {
        "correspondence": [lambda ctx: i3_card.corr_card(ctx, include=("adders", "pop"))],
        "oracle": [i3_card.oracle_c12],
        "oracle_budget": {"quick": 20, "thorough": 240},
        "replay": lambda ctx, r: i3_card._c12_case(ctx, r["m"], r["w"], r["sat"]),
        "trusted_base": TB_COMMON + ["math.ceil(math.log(n, 2)) is modelled by the exact ceil-log2 (clog2)"],
        "assumptions": ["inputs are non-zero literals of existing variables; ripple_saturate operands have at most saturate_at bits"],
    },
    "C10": {
        "correspondence": [lambda ctx: i3_card.corr_card(ctx, include=("pop", "assert")), i3_card.corr_combine],
        "oracle": [i3_card.oracle_c10],
        "oracle_budget": {"quick": 25, "thorough": 300},
        "replay": lambda ctx, r: (lambda x: ctx.fail(x["what"], x) if x else None)(
            i3_card.c10_case(r["n"], r["k"], r["rel"], again=r.get("again", False))),
        "trusted_base": TB_COMMON + ["math.ceil(math.log(n, 2)) is modelled by the exact ceil-log2 (clog2)"],
        "assumptions": ["the n variables are distinct"],
    },
}
