"""Interface I5: combinatorics.py vs SPModel.Comb (return values), and the C13
oracle: each unranking function maps 0..N-1 one-to-one onto all arrangements
of its kind, N being what the matching counting function reports."""
import itertools
from math import factorial, comb

import sweetpea._internal.combinatorics as C


def _call(fn, *a):
    try:
        return {"ok": fn(*a)}
    except ZeroDivisionError:
        return {"err": "ZeroDivisionError"}
    except IndexError:
        return {"err": "IndexError"}
    except AssertionError:
        return {"err": "AssertionError"}


def py_comb(req, memo=None):
    m = req["m_"]
    if m == "extract_components":
        return _call(C.extract_components, list(req["sizes"]), req["n"])
    if m == "jth_combination":
        return _call(C.compute_jth_combination, req["l"], req["n"], req["j"])
    if m == "n_choose_m":
        return _call(C.n_choose_m, req["n"], req["m"])
    if m == "jth_combination_norepl":
        return _call(C.compute_jth_combination_without_replacement, req["n"], req["m"], req["j"])
    if m == "jth_inversion":
        return _call(C.compute_jth_inversion_sequence, req["n"], req["m"], req["j"])
    if m == "construct_permutation":
        return _call(C.construct_permutation, list(req["inv"]), req["n"])
    if m == "jth_permutation_prefix":
        return _call(C.compute_jth_permutation_prefix, req["n"], req["m"], req["j"])
    if m == "count_remaining":
        return _call(C.count_remaining_permutations, list(req["counters"]))
    if m == "perm_with_copies":
        return _call(C.construct_permutation_with_copies, req["idx"], req["q"], req["m"])
    if m == "perm_with_varying_copies":
        return _call(C.construct_permutation_with_varying_copies, req["idx"], req["q"], list(req["counters"]))
    if m == "count_perms_with_copies":
        return _call(C.count_permutations_with_copies, req["q"], req["m"], req["first_n"])
    mc = list(req["counters"]) if "counters" in req else req["m"]
    memo = memo if memo is not None else C.PermutationMemo()
    if m == "count_prefixes":
        return _call(C.count_prefixes_of_permutations_with_copies, req["q"], mc, req["first_n"], memo)
    if m == "jth_prefix":
        r = _call(C.compute_jth_prefix_of_permutations_with_copies, req["q"], mc, req["first_n"], req["j"], memo)
        if "ok" in r and isinstance(r["ok"], int):
            r = {"ok": None}          # index not below the count: Python returns the count
        return r
    raise ValueError(m)


def comb_requests(ctx):
    rng = ctx.rng
    big = ctx.big()
    R = lambda **kw: dict(op="comb", **kw)
    # exhaustive small
    for sizes in itertools.chain.from_iterable(itertools.product(range(0 if big else 1, 4), repeat=k) for k in range(0, 4)):
        tot = 1
        for s in sizes:
            tot *= max(s, 1)
        for n in range(0, tot + 2):
            yield R(m_="extract_components", sizes=list(sizes), n=n)
    for l in range(0, 4):
        for n in range(0, 4):
            for j in range(0, n ** l + 2):
                yield R(m_="jth_combination", l=l, n=n, j=j)
    for n in range(0, 8 if big else 7):
        for m in range(0, n + 2):
            yield R(m_="n_choose_m", n=n, m=m)
            for j in range(0, comb(n, m) + (1 if m > 0 else 0)):
                if m <= n:
                    yield R(m_="jth_combination_norepl", n=n, m=m, j=j)
            if m <= n:
                for j in range(0, factorial(n) // factorial(n - m) + 1):
                    yield R(m_="jth_inversion", n=n, m=m, j=j)
                    yield R(m_="jth_permutation_prefix", n=n, m=m, j=j)
    for inv in ([0], [1], [2, 0], [0, 0, 0], [3], [1, 1, 1], [2, 2]):
        for n in range(0, 5):
            yield R(m_="construct_permutation", inv=inv, n=n)
    qmax, mmax = (4, 3) if big else (3, 3)
    for q in range(0, qmax + 1):
        for m in range(0, mmax + 1):
            tot = factorial(q * m) // (factorial(m) ** q)
            for idx in range(0, min(tot, 400) + 1):
                yield R(m_="perm_with_copies", idx=idx, q=q, m=m)
            for first_n in range(0, q * m + 2):
                yield R(m_="count_perms_with_copies", q=q, m=m, first_n=first_n)
                yield R(m_="count_prefixes", q=q, m=m, first_n=first_n)
                cnt = C.count_prefixes_of_permutations_with_copies(q, m, first_n, C.PermutationMemo())
                for j in range(0, min(cnt, 300) + 1):
                    yield R(m_="jth_prefix", q=q, m=m, first_n=first_n, j=j)
    for counters in itertools.chain.from_iterable(itertools.product(range(0, 4), repeat=k) for k in range(0, 4 if big else 4)):
        counters = list(counters)
        q = len(counters)
        yield R(m_="count_remaining", counters=counters)
        tot = C.count_remaining_permutations(counters)
        for idx in range(0, min(tot, 120) + 1):
            yield R(m_="perm_with_varying_copies", idx=idx, q=q, counters=counters)
        for first_n in range(0, sum(counters) + 2):
            yield R(m_="count_prefixes", q=q, counters=counters, first_n=first_n)
            cnt = C.count_prefixes_of_permutations_with_copies(q, counters, first_n, C.PermutationMemo())
            step = 1 if cnt <= 150 else cnt // 97
            for j in list(range(0, cnt, step)) + [cnt - 1, cnt]:
                if j >= 0:
                    yield R(m_="jth_prefix", q=q, counters=counters, first_n=first_n, j=j)
    # larger random
    for _ in range(4000 if big else 700):
        k = rng.randint(0, 9)
        if k == 0:
            sizes = [rng.randint(1, 30) for _ in range(rng.randint(1, 6))]
            yield R(m_="extract_components", sizes=sizes, n=rng.randint(0, 10 ** 9))
        elif k == 1:
            l, n = rng.randint(1, 12), rng.randint(1, 12)
            yield R(m_="jth_combination", l=l, n=n, j=rng.randint(0, n ** l - 1))
        elif k == 2:
            n = rng.randint(1, 30); m = rng.randint(0, n)
            yield R(m_="n_choose_m", n=n, m=m)
            yield R(m_="jth_combination_norepl", n=n, m=m, j=rng.randint(0, comb(n, m) - 1))
        elif k == 3:
            n = rng.randint(1, 14); m = rng.randint(0, n)
            yield R(m_="jth_permutation_prefix", n=n, m=m, j=rng.randint(0, factorial(n) // factorial(n - m) - 1))
        elif k == 4:
            q, m = rng.randint(1, 6), rng.randint(1, 4)
            tot = factorial(q * m) // (factorial(m) ** q)
            yield R(m_="perm_with_copies", idx=rng.randint(0, tot - 1), q=q, m=m)
        elif k in (5, 6):
            q, m = rng.randint(1, 12), rng.randint(1, 4)
            first_n = rng.randint(0, q * m)
            yield R(m_="count_prefixes", q=q, m=m, first_n=first_n)
            cnt = C.count_prefixes_of_permutations_with_copies(q, m, first_n, C.PermutationMemo())
            if cnt:
                yield R(m_="jth_prefix", q=q, m=m, first_n=first_n, j=rng.randint(0, cnt - 1))
        else:
            q = rng.randint(1, 7)
            counters = [rng.randint(0, 4) for _ in range(q)]
            first_n = rng.randint(0, sum(counters))
            yield R(m_="count_prefixes", q=q, counters=counters, first_n=first_n)
            cnt = C.count_prefixes_of_permutations_with_copies(q, counters, first_n, C.PermutationMemo())
            if cnt:
                yield R(m_="jth_prefix", q=q, counters=counters, first_n=first_n, j=rng.randint(0, cnt - 1))


def corr_comb(ctx):
    d = ctx.drv()
    ctx.rules.append("I5: every function of combinatorics.py vs SPModel.Comb, return values (and error kinds) "
                     "compared exactly; exhaustive small parameters (q<=3-4, m<=3, counters<=3, every index incl. "
                     "one past the end) + seeded random larger ones; prefix unranking under three memo disciplines (shared with "
                     "the counting call, fresh per call, unrank-only); "
                     "non-trivial = result is a non-empty list or a count > 1")
    shared = {}
    unrank_only = {}
    for req in comb_requests(ctx):
        memo = None
        if req["m_"] in ("count_prefixes", "jth_prefix"):
            # share one memo per (q, availability): what RandomGen does
            key = (req["q"], tuple(req["counters"]) if "counters" in req else req["m"])
            memo = shared.setdefault(key, C.PermutationMemo())
        py = py_comb(req, memo)
        le = d.ask(req)
        if req["m_"] == "jth_prefix":
            # the memo table must not matter: also with a fresh memo for this call alone, and with a memo that has
            # only ever been used for unranking (never filled by a counting call)
            for label, m2 in (("fresh", C.PermutationMemo()), ("unrank-only", unrank_only.setdefault(key, C.PermutationMemo()))):
                py2 = py_comb(req, m2)
                ctx.count("I5.jth_prefix." + label)
                if py2 != le:
                    ctx.corr_break("I5.jth_prefix(%s memo)" % label, req, py2, le)
        ctx.count("I5." + req["m_"])
        if "err" in py:
            ctx.count("I5.err." + py["err"])
        ok = py.get("ok")
        nontriv = (isinstance(ok, list) and len(ok) > 0) or (isinstance(ok, int) and ok > 1)
        ctx.case(("I5", repr(sorted(req.items()))), nontriv,
                 sample={"interface": "I5", "request": req, "python": py} if ctx.evaluations % 1499 == 7 else None)
        if py != le:
            ctx.corr_break("I5." + req["m_"], req, py, le)


# ----------------------------------------------------------------- oracle

def _bij(ctx, name, params, N, unrank, target):
    """unrank: index -> arrangement; target: the full set of arrangements (as tuples)."""
    seen = set()
    for j in range(N):
        try:
            w = tuple(unrank(j))
        except Exception as e:
            return "%s%s: index %d of %d raised %r" % (name, params, j, N, e)
        if w in seen:
            return "%s%s: index %d repeats arrangement %s" % (name, params, j, w)
        if w not in target:
            return "%s%s: index %d gives %s, not an arrangement of this kind" % (name, params, j, w)
        seen.add(w)
    if len(seen) != len(target):
        return "%s%s: count function reports %d but there are %d arrangements" % (name, params, N, len(target))
    return None


def c13_cases(big):
    rng_q = 4 if big else 3
    for sizes in itertools.chain.from_iterable(itertools.product(range(1, 4), repeat=k) for k in range(1, 4)):
        yield ("extract_components", {"sizes": list(sizes)})
    for l in range(0, 4):
        for n in range(1, 4):
            yield ("jth_combination", {"l": l, "n": n})
    for n in range(0, 7):
        for m in range(0, n + 1):
            yield ("norepl", {"n": n, "m": m})
            yield ("perm_prefix", {"n": n, "m": m})
    for q in range(1, rng_q + 1):
        for m in range(1, 4):
            if factorial(q * m) // factorial(m) ** q <= 40000:
                yield ("copies", {"q": q, "m": m})
            for first_n in range(0, q * m + 1):
                if q ** first_n <= 30000:
                    yield ("prefix", {"q": q, "m": m, "first_n": first_n})
    for counters in itertools.chain.from_iterable(itertools.product(range(0, 4), repeat=k) for k in range(1, 4)):
        if sum(counters) <= 7:
            yield ("varying", {"counters": list(counters)})
            for first_n in range(0, sum(counters) + 1):
                yield ("prefix", {"q": len(counters), "counters": list(counters), "first_n": first_n})


def c13_case(kind, p):
    if kind == "extract_components":
        sizes = p["sizes"]
        N = 1
        for s in sizes:
            N *= s
        target = set(itertools.product(*[range(s) for s in sizes]))
        return _bij(None, "extract_components", p, N, lambda j: C.extract_components(list(sizes), j), target)
    if kind == "jth_combination":
        l, n = p["l"], p["n"]
        return _bij(None, "compute_jth_combination", p, n ** l, lambda j: C.compute_jth_combination(l, n, j),
                    set(itertools.product(range(n), repeat=l)))
    if kind == "norepl":
        n, m = p["n"], p["m"]
        target = set(tuple(sorted(c, reverse=True)) for c in itertools.combinations(range(n), m))
        return _bij(None, "compute_jth_combination_without_replacement", p, C.n_choose_m(n, m),
                    lambda j: C.compute_jth_combination_without_replacement(n, m, j), target)
    if kind == "perm_prefix":
        n, m = p["n"], p["m"]
        return _bij(None, "compute_jth_permutation_prefix", p, factorial(n) // factorial(n - m),
                    lambda j: C.compute_jth_permutation_prefix(n, m, j), set(itertools.permutations(range(n), m)))
    if kind == "copies":
        q, m = p["q"], p["m"]
        target = set(itertools.permutations([i for i in range(q) for _ in range(m)]))
        return _bij(None, "construct_permutation_with_copies", p, C.count_permutations_with_copies(q, m, q * m),
                    lambda j: C.construct_permutation_with_copies(j, q, m), target)
    if kind == "varying":
        cs = p["counters"]
        q = len(cs)
        target = set(itertools.permutations([i for i in range(q) for _ in range(cs[i])]))
        return _bij(None, "construct_permutation_with_varying_copies", p, C.count_remaining_permutations(list(cs)),
                    lambda j: C.construct_permutation_with_varying_copies(j, q, list(cs)), target)
    if kind == "prefix":
        q, first_n = p["q"], p["first_n"]
        mc = list(p["counters"]) if "counters" in p else p["m"]
        cap = (lambda i: mc[i]) if isinstance(mc, list) else (lambda i: mc)
        target = set(w for w in itertools.product(range(q), repeat=first_n)
                     if all(w.count(i) <= cap(i) for i in range(q)))
        memo = C.PermutationMemo()
        N = C.count_prefixes_of_permutations_with_copies(q, mc if not isinstance(mc, list) else list(mc), first_n, memo)
        if not isinstance(mc, list):
            N2 = C.count_permutations_with_copies(q, mc, first_n)
            if N2 != N:
                return "count_permutations_with_copies%s = %d but count_prefixes = %d" % (p, N2, N)
        mcv = (lambda: mc if not isinstance(mc, list) else list(mc))
        r = _bij(None, "compute_jth_prefix_of_permutations_with_copies", p, N,
                 lambda j: C.compute_jth_prefix_of_permutations_with_copies(q, mcv(), first_n, j, memo), target)
        if r:
            return r
        # the memo table must not matter: a fresh memo per call, and one memo used for unranking only
        r = _bij(None, "compute_jth_prefix_of_permutations_with_copies[fresh memo per call]", p, N,
                 lambda j: C.compute_jth_prefix_of_permutations_with_copies(q, mcv(), first_n, j, C.PermutationMemo()), target)
        if r:
            return r
        only = C.PermutationMemo()
        return _bij(None, "compute_jth_prefix_of_permutations_with_copies[memo used for unranking only]", p, N,
                    lambda j: C.compute_jth_prefix_of_permutations_with_copies(q, mcv(), first_n, j, only), target)
    raise ValueError(kind)


def oracle_c13(ctx, budget_s):
    ctx.rules.append("C13 oracle: for each parameter tuple, run the unranking function on every index 0..N-1 "
                     "(N from the matching counting function) and compare the image with the brute-force set of "
                     "arrangements: injective, inside the set, and N = size of the set")
    t_end = ctx.elapsed() + budget_s
    for kind, p in c13_cases(ctx.big()):
        if ctx.elapsed() > t_end:
            ctx.notes.append("C13 oracle stopped by budget")
            return
        r = c13_case(kind, p)
        ctx.count("C13.oracle." + kind)
        ctx.case(("C13", kind, repr(sorted(p.items()))), True,
                 sample={"oracle": "C13", "kind": kind, "params": p} if kind == "prefix" and p.get("first_n") == 3 and len(ctx.samples) < 4 else None)
        if r:
            ctx.fail("C13: " + r, {"kind": kind, "params": p})
            return
