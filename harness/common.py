"""Shared machinery of the correspondence harness: the Lean driver process,
the run context (seeded PRNG, counters, samples), the proof audit, the
known-findings file, evidence and replay writers.

Run with /venv/bin/python and PYTHONPATH=/repo (the `check` script arranges
that), so that `import sweetpea` is /repo's current working tree.
"""
import fcntl
import json
import os
import random
import re
import subprocess
import sys
import time

VERIF = os.path.dirname(os.path.dirname(os.path.abspath(__file__)))
LEAN = os.path.join(VERIF, "lean")
SPDRV = os.path.join(LEAN, ".lake", "build", "bin", "spdrv")
REPO = os.environ.get("SWEETPEA_REPO", "/repo")
ALLOWED_AXIOMS = {"propext", "Classical.choice", "Quot.sound"}
FORBIDDEN = re.compile(r"\bsorry\b|\badmit\b|^axiom |native_decide|bv_decide|implemented_by|\bunsafe |maxHeartbeats 0")


class Infra(Exception):
    """Infrastructure failure: exit status 2, never a violation."""


def lake_build(targets=("SPModel", "spdrv")):
    targets = list(dict.fromkeys(targets))
    """Build the Lean library and driver (no-op when up to date).  Serialised
    with a lock file so that checks running in parallel do not race."""
    os.makedirs(os.path.join(LEAN, ".lake"), exist_ok=True)
    with open(os.path.join(LEAN, ".lake", "verif.lock"), "w") as lk:
        fcntl.flock(lk, fcntl.LOCK_EX)
        t0 = time.time()
        p = subprocess.run(["lake", "build", *targets], cwd=LEAN, capture_output=True, text=True)
        if p.returncode != 0:
            return False, (p.stdout + p.stderr)[-4000:], time.time() - t0
        return True, "", time.time() - t0


class Driver:
    """The compiled Lean model behind a one-line-in / one-line-out protocol."""

    def __init__(self):
        if not os.path.exists(SPDRV):
            raise Infra("driver not built: " + SPDRV)
        self.p = subprocess.Popen([SPDRV], stdin=subprocess.PIPE, stdout=subprocess.PIPE,
                                  text=True, bufsize=1)
        self.n = 0

    def ask(self, obj):
        self.p.stdin.write(json.dumps(obj, separators=(",", ":")) + "\n")
        self.p.stdin.flush()
        line = self.p.stdout.readline()
        if not line:
            raise Infra("driver died on request %r" % (obj,))
        self.n += 1
        ans = json.loads(line)
        if "bad" in ans:
            raise Infra("driver rejected request %r: %s" % (obj, ans["bad"]))
        return ans

    def close(self):
        try:
            self.p.stdin.close()
            self.p.wait(timeout=5)
        except Exception:
            self.p.kill()


class Ctx:
    """State of one check run."""

    def __init__(self, prop, tier, seed):
        self.prop = prop
        self.tier = tier
        self.seed = seed
        self.rng = random.Random(seed * 1000003 + sum(map(ord, prop)))
        self.t0 = time.time()
        self.cpu0 = sum(os.times()[:4])
        self.driver = None
        self.evaluations = 0
        self.distinct = set()         # keys of distinct non-trivial cases
        self.samples = []
        self.counters = {}
        self.corr_breaks = []         # model/implementation disagreements
        self.failures = []            # property-level failures (oracle)
        self.known_hits = []          # KNOWN-FINDING lines
        self.notes = []
        self.rules = []
        self.assumptions = []

    def drv(self):
        if self.driver is None:
            self.driver = Driver()
        return self.driver

    def count(self, key, n=1):
        self.counters[key] = self.counters.get(key, 0) + n

    def case(self, key, nontrivial=True, sample=None):
        """Record one evaluated case; `key` identifies it for distinctness."""
        self.evaluations += 1
        if nontrivial:
            self.distinct.add(key if isinstance(key, (str, int, tuple)) else json.dumps(key, sort_keys=True))
        if sample is not None and len(self.samples) < 6:
            self.samples.append(sample)

    def corr_break(self, interface, inp, py, lean):
        self.corr_breaks.append({"interface": interface, "input": inp, "python": py, "lean": lean})

    def fail(self, what, replay):
        self.failures.append({"what": what, "replay": replay})

    def elapsed(self):
        """Budget clock: CPU seconds of this process and its finished children, but at least half the wall-clock
        time — so that a loaded machine explores (nearly) as many cases as an idle one, while a check that mostly
        waits still ends in bounded wall-clock time."""
        return max(sum(os.times()[:4]) - self.cpu0, (time.time() - self.t0) / 2.0)

    def wall(self):
        return time.time() - self.t0

    def big(self):
        return self.tier == "thorough"


# --------------------------------------------------------------------------
# proof audit

def property_index():
    with open(os.path.join(LEAN, "PROPERTY_INDEX.json")) as f:
        return json.load(f)


def module_closure(mods):
    """Source files of `mods` and of everything they import inside this project."""
    seen, todo = {}, list(mods)
    while todo:
        m = todo.pop()
        if m in seen:
            continue
        path = os.path.join(LEAN, *m.split(".")) + ".lean"
        if not os.path.exists(path):
            continue
        seen[m] = path
        for line in open(path, encoding="utf-8"):
            mm = re.match(r"\s*import\s+((?:SPModel|SPProofs)[\w.]*)", line)
            if mm:
                todo.append(mm.group(1))
    return seen


def grep_forbidden(mods):
    hits = []
    for m, path in sorted(module_closure(mods).items()):
        in_block = 0
        for i, line in enumerate(open(path, encoding="utf-8"), 1):
            code = line
            # strip comments (block comments tracked roughly, line comments exactly)
            if in_block:
                if "-/" in code:
                    code = code.split("-/", 1)[1]
                    in_block = 0
                else:
                    continue
            if "/-" in code:
                pre, post = code.split("/-", 1)
                if "-/" in post:
                    code = pre + post.split("-/", 1)[1]
                else:
                    code = pre
                    in_block = 1
            code = code.split("--", 1)[0]
            if FORBIDDEN.search(code):
                hits.append("%s:%d: %s" % (os.path.relpath(path, VERIF), i, line.strip()))
    return hits


def audit(prop):
    """Check that every theorem registered for `prop` exists in the built
    library and depends on allowed axioms only.  Returns a dict."""
    idx = property_index().get(prop, {"theorems": [], "modules": []})
    thms = idx.get("theorems", [])
    res = {"obligations": len(thms), "discharged": 0, "theorems": [], "problems": [],
           "checker_cmd": "cd lean && lake build SPModel SPProofs spdrv && lake env lean <audit file with `#print axioms` per theorem>"}
    mods = idx.get("modules", [])
    hits = grep_forbidden(mods)
    if hits:
        res["problems"].append({"forbidden_tokens": hits[:10]})
    if not thms:
        return res
    src = "".join("import %s\n" % m for m in mods)
    for t in thms:
        src += "#print axioms %s\n" % t["name"]
    os.makedirs(os.path.join(LEAN, ".lake", "audit"), exist_ok=True)
    path = os.path.join(LEAN, ".lake", "audit", "Audit_%s_%d.lean" % (prop, os.getpid()))
    with open(path, "w") as f:
        f.write(src)
    p = subprocess.run(["lake", "env", "lean", path], cwd=LEAN, capture_output=True, text=True)
    os.unlink(path)
    out = p.stdout + p.stderr
    found = {}
    for m in re.finditer(r"'([^']+)' depends on axioms: \[([^\]]*)\]", out):
        found[m.group(1)] = [a.strip() for a in m.group(2).replace("\n", " ").split(",") if a.strip()]
    for m in re.finditer(r"'([^']+)' does not depend on any axioms", out):
        found[m.group(1)] = []
    for t in thms:
        name = t["name"]
        if name not in found:
            res["problems"].append({"missing_or_broken": name, "lean_output": out[-600:]})
            res["theorems"].append({"name": name, "status": t.get("status", "full"), "ok": False})
            continue
        axs = found[name]
        extra = [a for a in axs if a not in ALLOWED_AXIOMS]
        ok = not extra and not hits
        if extra:
            res["problems"].append({"axioms": name, "extra": extra})
        if ok:
            res["discharged"] += 1
        res["theorems"].append({"name": name, "status": t.get("status", "full"), "axioms": axs,
                                "guard": t.get("guard"), "ok": ok})
    return res


# --------------------------------------------------------------------------
# known findings

def known_findings():
    p = os.path.join(VERIF, "known_findings.json")
    if not os.path.exists(p):
        return []
    with open(p) as f:
        return json.load(f)


# --------------------------------------------------------------------------
# output

def write_replay(ctx, payload):
    os.makedirs(os.path.join(VERIF, "replays"), exist_ok=True)
    rel = os.path.join("replays", "%s-%d.json" % (ctx.prop, ctx.seed))
    with open(os.path.join(VERIF, rel), "w") as f:
        json.dump(payload, f, indent=1, default=str)
    return rel


def write_evidence(ctx, aud, level, violations, trusted_base, extra=None):
    cov = {
        "obligations": max(aud["obligations"], 1) if aud["obligations"] else 0,
        "discharged": aud["discharged"],
        "checker_cmd": aud["checker_cmd"],
        "trusted_base": trusted_base,
        "theorems": aud["theorems"],
        "audit_problems": aud["problems"],
        "evaluations": ctx.evaluations,
        "distinct_nontrivial": len(ctx.distinct),
        "rule": " | ".join(ctx.rules),
        "samples": ctx.samples if ctx.samples else ["(no sample recorded)"],
        "counters": ctx.counters,
        "correspondence_breaks": len(ctx.corr_breaks),
        "known_findings_replayed": ctx.known_hits,
        "notes": ctx.notes,
    }
    if extra:
        cov.update(extra)
    ev = {
        "property_id": ctx.prop,
        "tier": ctx.tier,
        "seed": ctx.seed,
        "level": level,
        "coverage": cov,
        "assumptions": ctx.assumptions,
        "wall_s": round(ctx.elapsed(), 2),
        "violations": violations,
    }
    os.makedirs(os.path.join(VERIF, "evidence"), exist_ok=True)
    with open(os.path.join(VERIF, "evidence", ctx.prop + ".json"), "w") as f:
        json.dump(ev, f, indent=1, default=str)
    return ev
