"""Interface I3: `core/cnf.py` builders and `combine_cnf_with_requests`
against `SPModel.Card` (clause-exact), plus the property oracles of C12
(adders / pop count compute sums, no freedom) and C10 (cardinality)."""
import itertools

import pycryptosat

from sweetpea._internal.core.cnf import CNF, Var
from sweetpea._internal.core.generate.utility import (AssertionType, GenerationRequest,
                                                      combine_cnf_with_requests)


def _py_state(c, ret):
    return {"vals": [[int(v) for v in cl] for cl in c._vals], "nvars": c._num_vars, "ret": ret}


def _err(e):
    return {"err": type(e).__name__}


def py_card(req):
    """Run one builder method of the real CNF class."""
    m = req["m"]
    c = CNF.from_fresh(req["fresh"])
    V = lambda i: Var(i)
    try:
        if m == "half_adder":
            (cc, s) = c.half_adder(V(req["a"]), V(req["b"]))
            return {"ok": _py_state(c, [int(cc), int(s)])}
        if m == "full_adder":
            cin = None if req.get("cin") is None else V(req["cin"])
            (cc, s) = c.full_adder(V(req["a"]), V(req["b"]), cin)
            return {"ok": _py_state(c, [int(cc), int(s)])}
        if m == "saturate_adder":
            cin = None if req.get("cin") is None else V(req["cin"])
            s = c.saturate_adder(V(req["a"]), V(req["b"]), cin)
            return {"ok": _py_state(c, int(s))}
        if m == "ripple_carry":
            (cc, ss) = c.ripple_carry([V(x) for x in req["xs"]], [V(y) for y in req["ys"]])
            return {"ok": _py_state(c, [None if cc is None else int(cc), [int(s) for s in ss]])}
        if m == "ripple_saturate":
            out = c.ripple_saturate([V(x) for x in req["xs"]], [V(y) for y in req["ys"]], req["sat"])
            if any(o is None for o in out):
                return {"err": "TypeError"}     # `cast(Var, None)` ends up in the list
            return {"ok": _py_state(c, [int(s) for s in out])}
        if m == "pop_count":
            out = c.pop_count([V(x) for x in req["xs"]], req["sat"])
            return {"ok": _py_state(c, [int(s) for s in out])}
        if m == "assert_eq":
            c.assert_k_of_n(req["k"], [V(x) for x in req["xs"]])
            return {"ok": _py_state(c, None)}
        if m == "assert_lt":
            c.assert_k_less_than_n(req["k"], [V(x) for x in req["xs"]])
            return {"ok": _py_state(c, None)}
        if m == "assert_gt":
            c.assert_k_greater_than_n(req["k"], [V(x) for x in req["xs"]])
            return {"ok": _py_state(c, None)}
    except (ValueError, IndexError, TypeError, KeyError, AttributeError, ZeroDivisionError) as e:
        return _err(e)
    raise ValueError(m)


def models_extending(clauses, nvars, fixed, limit=3):
    """Number (capped at `limit`) of assignments of 1..nvars that satisfy
    `clauses` and agree with the dict `fixed`, and the first one found."""
    s = pycryptosat.Solver()
    for cl in clauses:
        s.add_clause(cl)
    for v, b in fixed.items():
        s.add_clause([v if b else -v])
    if nvars > 0:
        s.add_clause([nvars, -nvars])          # make every variable known to the solver
    n = 0
    first = None
    while n < limit:
        sat, sol = s.solve()
        if not sat:
            break
        n += 1
        if first is None:
            first = sol
        block = [(-v if sol[v] else v) for v in range(1, nvars + 1)]
        if not block:
            break
        s.add_clause(block)
    return n, first


def lit(sol, l):
    return sol[abs(l)] if l > 0 else not sol[abs(l)]


def bits_value(sol, bits_msb):
    v = 0
    for b in bits_msb:
        v = 2 * v + (1 if lit(sol, b) else 0)
    return v


# ---------------------------------------------------------------- generators

def gen_lits(rng, n, fresh, allow_neg=True, distinct=True):
    pool = list(range(1, fresh + 1))
    vs = rng.sample(pool, n) if distinct else [rng.choice(pool) for _ in range(n)]
    return [v * (rng.choice([1, 1, 1, -1]) if allow_neg else 1) for v in vs]


def card_requests(ctx, include=("adders", "pop", "assert")):
    """Yield I3 requests: exhaustive small part + seeded random part."""
    rng = ctx.rng
    big = ctx.big()
    if "adders" in include:
        for a, b in ((1, 2), (-1, 2), (2, -1), (-3, -2), (1, 1)):
            yield {"op": "card", "m": "half_adder", "fresh": 3, "a": a, "b": b}
            for cin in (None, 3, -3):
                yield {"op": "card", "m": "full_adder", "fresh": 3, "a": a, "b": b, "cin": cin}
                yield {"op": "card", "m": "saturate_adder", "fresh": 3, "a": a, "b": b, "cin": cin}
        maxw = 6 if big else 4
        for wx in range(0, maxw + 1):
            for wy in range(0, maxw + 1):
                fresh = max(wx + wy, 1) + rng.randint(0, 3)
                ls = gen_lits(rng, wx + wy, fresh)
                yield {"op": "card", "m": "ripple_carry", "fresh": fresh, "xs": ls[:wx], "ys": ls[wx:]}
                for sat in range(0, maxw + 2):
                    yield {"op": "card", "m": "ripple_saturate", "fresh": fresh, "xs": ls[:wx], "ys": ls[wx:],
                           "sat": sat}
    if "pop" in include:
        maxn = 17 if big else 9
        for n in range(0, maxn + 1):
            for sat in range(0, 7 if big else 5):
                fresh = n + rng.randint(0, 2)
                xs = gen_lits(rng, n, max(fresh, 1), allow_neg=(n % 3 == 0))
                yield {"op": "card", "m": "pop_count", "fresh": max(fresh, 1), "xs": xs, "sat": sat}
        # widths around the powers of two up to 128 (where the padding to the next power of two changes)
        for n in (15, 16, 17, 31, 32, 33, 34, 63, 64, 65, 66, 67, 127, 128, 129, 130, 133):
            for sat in (0, 3):
                yield {"op": "card", "m": "pop_count", "fresh": n, "xs": list(range(1, n + 1)), "sat": sat}
    if "assert" in include:
        for n in (33, 65, 66, 129):
            for k in (1, n - 1):
                for m in ("assert_eq", "assert_lt", "assert_gt"):
                    yield {"op": "card", "m": m, "fresh": n, "xs": list(range(1, n + 1)), "k": k}
        maxn = 9 if big else 7
        maxk = 40 if big else 18
        for n in range(0, maxn + 1):
            for k in range(0, maxk + 1):
                for m in ("assert_eq", "assert_lt", "assert_gt"):
                    fresh = n + (k % 3)
                    yield {"op": "card", "m": m, "fresh": max(fresh, 1), "xs": list(range(1, n + 1)), "k": k}
        for _ in range(1500 if big else 250):
            n = rng.randint(1, 64 if big else 24)
            k = rng.choice([rng.randint(0, n + 2), rng.randint(0, 200 if big else 40)])
            fresh = n + rng.randint(0, 5)
            xs = gen_lits(rng, n, fresh, allow_neg=rng.random() < 0.2)
            yield {"op": "card", "m": rng.choice(["assert_eq", "assert_lt", "assert_gt"]), "fresh": fresh,
                   "xs": xs, "k": k}


def corr_card(ctx, include=("adders", "pop", "assert")):
    """Level-1 correspondence: clause-exact equality of model and code."""
    d = ctx.drv()
    ctx.rules.append("I3: every CNF builder method on CNF.from_fresh(n) vs SPModel.Card, clause lists, "
                     "variable counter and return values compared exactly; exhaustive small widths/n/k "
                     "plus seeded random larger ones; non-trivial = call that emits at least one clause")
    for req in card_requests(ctx, include):
        py = py_card(req)
        le = d.ask(req)
        ctx.count("I3." + req["m"])
        if "err" in py:
            ctx.count("I3.err." + py["err"])
        nontrivial = "ok" in py and len(py["ok"]["vals"]) > 0
        key = ("I3", req["m"], req["fresh"], tuple(req.get("xs", [])), tuple(req.get("ys", [])),
               req.get("k"), req.get("sat"), req.get("a"), req.get("b"), req.get("cin"))
        ctx.case(key, nontrivial, sample=None)
        if py != le:
            ctx.corr_break("I3." + req["m"], req, _short(py), _short(le))
    ctx.samples.append({"interface": "I3", "request": {"m": "assert_lt", "fresh": 3, "xs": [1, 2, 3], "k": 2},
                        "python": _short(py_card({"m": "assert_lt", "fresh": 3, "xs": [1, 2, 3], "k": 2}))})


def _short(o):
    s = repr(o)
    return o if len(s) < 1500 else s[:1500] + "..."


def corr_combine(ctx):
    d = ctx.drv()
    rng = ctx.rng
    ctx.rules.append("I3c: combine_cnf_with_requests(initial, fresh, _, requests) vs "
                     "SPModel.combineCnfWithRequests, resulting clause list compared exactly")
    for _ in range(300 if ctx.big() else 80):
        nv = rng.randint(2, 9)
        init = [gen_lits(rng, rng.randint(1, min(3, nv)), nv) for _ in range(rng.randint(0, 5))]
        reqs = []
        for _ in range(rng.randint(0, 3)):
            n = rng.randint(1, nv)
            reqs.append({"rel": rng.choice(["EQ", "LT", "GT"]), "k": rng.randint(0, n + 2),
                         "vars": sorted(rng.sample(range(1, nv + 1), n))})
        req = {"op": "combine", "fresh": nv, "cnf": init, "reqs": reqs}
        py = py_combine(req)
        le = d.ask(req)
        ctx.count("I3c.combine")
        ctx.case(("I3c", repr(req)), bool(reqs))
        if py != le:
            ctx.corr_break("I3c.combine", req, _short(py), _short(le))


def py_combine(req):
    try:
        grs = [GenerationRequest(AssertionType[r["rel"]], r["k"], [Var(v) for v in r["vars"]])
               for r in req["reqs"]]
        out = combine_cnf_with_requests(CNF(req["cnf"]), req["fresh"], 0, grs)
        return {"ok": [[int(v) for v in cl] for cl in out._vals]}
    except (ValueError, IndexError, TypeError) as e:
        return _err(e)


# ------------------------------------------------------------------ oracles

def oracle_c12(ctx, budget_s):
    """Property oracle for C12, on the implementation only: for every input
    assignment the emitted clauses have exactly one extension and the output
    bits encode the sum (saturated as documented)."""
    rng = ctx.rng
    ctx.rules.append("C12 oracle: for each builder call and EVERY assignment of its input variables, "
                     "enumerate the models of the clauses Python emitted (pycryptosat): exactly one, and "
                     "its output bits equal the integer sum / saturated sum / count")
    t_end = ctx.elapsed() + budget_s
    cases = []
    maxw = 4 if ctx.big() else 3
    for w in range(1, maxw + 1):
        cases.append(("ripple_carry", w, None))
        for sat in range(1, w + 3):
            cases.append(("ripple_saturate", w, sat))
    for n in range(1, (9 if ctx.big() else 6)):
        for sat in range(0, 6):
            cases.append(("pop_count", n, sat))
    cases += [("half_adder", 1, None), ("full_adder", 1, None), ("saturate_adder", 1, None),
              ("saturate_adder2", 1, None)]
    for (m, w, sat) in cases:
        if ctx.elapsed() > t_end:
            ctx.notes.append("C12 oracle stopped by budget")
            break
        _c12_case(ctx, m, w, sat)


def sat_value(count, s):
    """What a saturating pop count with `s` output bits stores for `count`."""
    if count < 2 ** (s - 1):
        return count
    return 2 ** (s - 1) + (count % (2 ** (s - 1)))     # top bit set; low bits: see C12 theorem


def _c12_case(ctx, m, w, sat):
    c = CNF.from_fresh(0)
    if m in ("half_adder", "full_adder", "saturate_adder", "saturate_adder2"):
        nin = {"half_adder": 2, "full_adder": 3, "saturate_adder": 3, "saturate_adder2": 2}[m]
    elif m.startswith("ripple"):
        nin = 2 * w
    else:
        nin = w
    c = CNF.from_fresh(nin)
    ins = [Var(i) for i in range(1, nin + 1)]
    try:
        if m == "half_adder":
            co, s = c.half_adder(ins[0], ins[1]); outs = [int(co), int(s)]
            spec = lambda a: a[0] + a[1]
        elif m == "full_adder":
            co, s = c.full_adder(ins[0], ins[1], ins[2]); outs = [int(co), int(s)]
            spec = lambda a: a[0] + a[1] + a[2]
        elif m == "saturate_adder":
            s = c.saturate_adder(ins[0], ins[1], ins[2]); outs = [int(s)]
            spec = lambda a: 1 if (a[0] or a[1] or a[2]) else 0
        elif m == "saturate_adder2":
            s = c.saturate_adder(ins[0], ins[1], None); outs = [int(s)]
            spec = lambda a: 1 if (a[0] or a[1]) else 0
        elif m == "ripple_carry":
            co, ss = c.ripple_carry(ins[:w], ins[w:]); outs = [int(co)] + [int(x) for x in reversed(ss)]
            spec = lambda a: _val(a[:w]) + _val(a[w:])
        elif m == "ripple_saturate":
            if w > sat:
                return      # documented precondition: no more than `saturate_at` input bits
            out = c.ripple_saturate(ins[:w], ins[w:], sat); outs = [int(x) for x in out]
            def spec(a, w=w, sat=sat):
                x, y = _satdecode(a[:w], w, sat), _satdecode(a[w:], w, sat)
                return _satencode(x, y, len(outs), sat)
        else:
            out = c.pop_count(ins, sat); outs = [int(x) for x in out]
            def spec(a, sat=sat):
                cnt = sum(a)
                if sat == 0 or len(outs) < sat:
                    return cnt
                M = 2 ** (sat - 1)    # top bit: count >= M; low bits: count mod M
                return (cnt % M) + (M if cnt >= M else 0)
    except Exception as e:
        ctx.fail("C12: %s(width %d, saturate_at %s) raised %r" % (m, w, sat, e),
                 {"kind": "c12", "m": m, "w": w, "sat": sat})
        return
    clauses = [[int(v) for v in cl] for cl in c._vals]
    nv = c._num_vars
    for a in itertools.product([0, 1], repeat=nin):
        fixed = {i + 1: bool(a[i]) for i in range(nin)}
        n, sol = models_extending(clauses, nv, fixed)
        ctx.case(("C12", m, w, sat, a), True,
                 sample={"oracle": "C12", "method": m, "width": w, "saturate_at": sat, "inputs": list(a)} if sum(a) == 1 else None)
        ctx.count("C12.oracle." + m)
        if n != 1:
            ctx.fail("C12: %s width %d sat %s inputs %s: %d extensions (expected exactly 1)" % (m, w, sat, a, n),
                     {"kind": "c12", "m": m, "w": w, "sat": sat, "inputs": list(a)})
            return
        want = spec(list(a))
        got = bits_value(sol, outs)
        if want is None:
            if not lit(sol, outs[0]):
                ctx.fail("C12: pop_count n=%d sat=%d inputs %s: saturated count lost its top bit" % (w, sat, a),
                         {"kind": "c12", "m": m, "w": w, "sat": sat, "inputs": list(a)})
                return
        elif got != want:
            ctx.fail("C12: %s width %d sat %s inputs %s: outputs encode %d, expected %d" % (m, w, sat, a, got, want),
                     {"kind": "c12", "m": m, "w": w, "sat": sat, "inputs": list(a)})
            return


def _val(bits):
    v = 0
    for b in bits:
        v = 2 * v + b
    return v


def _satdecode(bits, w, sat):
    """A `w`-bit operand of ripple_saturate: plain number if w < sat, else
    (top bit = saturated flag, rest = low bits)."""
    return (_val(bits), w)


def _satencode(x, y, nout, sat):
    """Expected output value of ripple_saturate on operands x=(val,w), y."""
    (xv, w), (yv, _) = x, y
    if w < sat:
        return xv + yv                      # w+1 output bits: the exact sum
    # w == sat: top bit is the saturation flag of each operand, low w-1 bits add modulo 2^(w-1)
    lowmask = 2 ** (w - 1)
    xl, xf = xv % lowmask, xv // lowmask
    yl, yf = yv % lowmask, yv // lowmask
    s = xl + yl
    flag = 1 if (xf or yf or s >= lowmask) else 0
    return flag * lowmask + (s % lowmask)


def oracle_c10(ctx, budget_s):
    """Property oracle for C10 on the implementation: satisfiable under an
    assignment of the n variables iff count ⋈ k, and then exactly one extension."""
    ctx.rules.append("C10 oracle: for each (relation, n, k) and EVERY assignment of the n variables, count the "
                     "models of the emitted clauses extending it: 1 if count ⋈ k holds, else 0")
    t_end = ctx.elapsed() + budget_s
    maxn = 8 if ctx.big() else 6
    maxk = 24 if ctx.big() else 11
    for n in range(1, maxn + 1):
        for k in range(0, maxk + 1):
            for rel in ("EQ", "LT", "GT"):
                if ctx.elapsed() > t_end:
                    ctx.notes.append("C10 oracle stopped by budget at n=%d k=%d" % (n, k))
                    return
                r = c10_case(n, k, rel, via_combine=(k % 2 == 0), again=((n + k) % 2 == 1))
                ctx.count("C10.oracle." + rel)
                ctx.case(("C10", rel, n, k), True,
                         sample={"oracle": "C10", "rel": rel, "n": n, "k": k} if (n, k) == (3, 2) else None)
                if r is not None:
                    ctx.fail("C10: %s" % r["what"], r)
                    return


def c10_case(n, k, rel, via_combine=False, xs=None, again=False):
    """`again`: the encoding judged is the *second* one made from the same variable-list / request objects (a caller
    looping over k with one list): it must be as exact as the first."""
    xs = xs or list(range(1, n + 1))
    try:
        vs = [Var(v) for v in xs]
        reqs = [GenerationRequest(AssertionType[rel], k, vs)]
        for _ in range(2 if again else 1):
            if via_combine:
                out = combine_cnf_with_requests(CNF(), n, 0, reqs)
                # number of variables: take the largest index used
                clauses = [[int(v) for v in cl] for cl in out._vals]
            else:
                c = CNF.from_fresh(n)
                {"EQ": c.assert_k_of_n, "LT": c.assert_k_less_than_n, "GT": c.assert_k_greater_than_n}[rel](k, vs)
                clauses = [[int(v) for v in cl] for cl in c._vals]
    except Exception as e:
        return {"kind": "c10", "n": n, "k": k, "rel": rel, "again": again, "what": "%s k=%d over %d variables raised %r" % (rel, k, n, e)}
    if [int(v) for v in vs] != list(xs):
        return {"kind": "c10", "n": n, "k": k, "rel": rel, "again": again,
                "what": "%s k=%d: the caller's variable list %s was changed to %s" % (rel, k, list(xs), [int(v) for v in vs])}
    nv = max([n] + [abs(l) for cl in clauses for l in cl])
    for a in itertools.product([0, 1], repeat=n):
        cnt = sum(a)
        want = {"EQ": cnt == k, "LT": cnt < k, "GT": cnt > k}[rel]
        m, _ = models_extending(clauses, nv, {i + 1: bool(a[i]) for i in range(n)})
        if m != (1 if want else 0):
            return {"kind": "c10", "n": n, "k": k, "rel": rel, "inputs": list(a), "again": again,
                    "what": "%s k=%d over %d variables%s, assignment %s (count %d): %d satisfying extensions, expected %d"
                            % (rel, k, n, " (second encoding from the same list object)" if again else "", a, cnt, m, 1 if want else 0)}
    return None
