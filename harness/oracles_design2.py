"""More property oracles over generated designs: layout (C14), derived-factor
totality (C15), weights (C23), combinator laws (C24), Nest structure (C25),
constraint scope (C26), SMGen (C29), RandomGen uniformity (C05), object
sharing (C18), call histories (C19)."""
import copy
import itertools
import json
import random as pyrandom

import sweetpea as sp
from sweetpea._internal.sampling_strategy.base import Gen as SPGen

from . import designs as D
from . import i12_oracle as O
from . import oracles_design as OD
from .designs import quiet
from .oracles_design import report, known_for, gen_cases, sample_desc, exps_to_seqs, multiset, nontrivial


# ---------------------------------------------------------------- C14 layout

def oracle_c14(ctx, budget_s):
    ctx.rules.append("C14 oracle: for every accepted generated design: each applicable (trial, factor, level) of the "
                     "active design has its own variable in 1..variables_per_sample, decode_variable inverts the "
                     "encoding, auxiliary variables of the backend request start above, and Gen.decode of a random "
                     "one-hot assignment reports exactly the chosen levels ('' where the factor does not apply)")
    for case in gen_cases(ctx, budget_s):
        blk = case.fresh_block()
        n = blk.trials_per_sample()
        vps = blk.variables_per_sample()
        seen = {}
        ok = True
        for t in range(1, n + 1):
            for f in blk.act_design:
                sc = blk.sustain_count(f)
                if not f.applies_to_trial((t - 1) // sc + 1):
                    continue
                for l in f.levels:
                    v = blk._encode_variable(f, l, t)
                    ctx.count("C14.variables")
                    if not (1 <= v <= vps):
                        report(ctx, "layout", case, "variable %d of (%s,%s) at trial %d is outside 1..%d" % (v, f.name, l.name, t, vps))
                        ok = False
                    elif v in seen:
                        report(ctx, "layout", case, "variable %d is shared by %s and (%s,%s,trial %d)" % (v, seen[v], f.name, l.name, t))
                        ok = False
                    else:
                        seen[v] = (str(f.name), str(l.name), t)
                        df, dl = blk.decode_variable(v)
                        if df is not f or dl is not l:
                            report(ctx, "layout", case, "decode_variable(%d) = (%s,%s), encoded (%s,%s)" % (v, df.name, dl.name, f.name, l.name))
                            ok = False
                if not ok:
                    break
            if not ok:
                break
        if ok and len(seen) != vps:
            report(ctx, "layout", case, "%d variables are used by (trial, factor, level) choices but variables_per_sample is %d" % (len(seen), vps))
            ok = False
        if ok:
            try:
                br = quiet(blk.build_backend_request)
                aux = set()
                for cnf in br.cnfs:
                    for cl in cnf.input_list:
                        for x in (cl.input_list if hasattr(cl, "input_list") else [cl]):
                            y = x.c if hasattr(x, "c") else x
                            if isinstance(y, int) and abs(y) > vps:
                                aux.add(abs(y))
                if aux and (min(aux) <= vps or max(aux) >= br.fresh):
                    report(ctx, "layout", case, "auxiliary variables %d..%d overlap the trial variables (1..%d) or the reported fresh counter %d" % (
                        min(aux), max(aux), vps, br.fresh))
            except Exception:
                pass            # C08's business
            # one-hot decode
            rng = ctx.rng
            chosen = {}
            sol = []
            for t in range(1, n + 1):
                for f in blk.act_design:
                    sc = blk.sustain_count(f)
                    if f.applies_to_trial((t - 1) // sc + 1):
                        l = rng.choice(list(f.levels))
                        chosen[(f.name, t)] = l.name
                        sol.append(blk._encode_variable(f, l, t))
            full = [v if v in set(sol) else -v for v in range(1, vps + 1)]
            rng.shuffle(full)
            try:
                dec = SPGen.decode(blk, full)
                for f in blk.act_design:
                    sc = blk.sustain_count(f)
                    want = [chosen.get((f.name, t), "") for t in range(1, n + 1)]
                    if list(dec.get(f.name, [])) != want:
                        report(ctx, "layout", case, "Gen.decode reports %s for factor %s, the assignment chose %s" % (dec.get(f.name), f.name, want))
                        break
            except Exception as e:
                report(ctx, "layout", case, "Gen.decode raised %s on a one-hot assignment" % type(e).__name__)
        ctx.case(("C14", json.dumps(case.desc, sort_keys=True)), vps > 2,
                 sample={"design": sample_desc(case), "variables_per_sample": vps, "trials": n} if len(ctx.samples) < 3 else None)
        if ctx.failures:
            return


# ----------------------------------------------------- C15 derived totality

def oracle_c15(ctx, budget_s):
    rng = ctx.rng
    ctx.rules.append("C15 oracle: derived factors with random predicate tables; a table pair made to overlap on a "
                     "fully defined window must be rejected at block construction (ValueError); a window matched by "
                     "no level must leave a non-warning error and make IterateSATGen and RandomGen return []; "
                     "otherwise every returned sequence has, on each applicable trial, the one level whose table "
                     "accepts the window, and '' before the start / between strides (judged by Spec)")
    g = D.Gen(rng, max_trials=5)
    t_end = ctx.elapsed() + budget_s
    # corpus designs with derived factors first (explicit starts, strides, weighted dependencies)
    for desc in O.corpus_designs(ctx.big()):
        if ctx.elapsed() > ctx.t0_dummy if False else ctx.elapsed() > t_end - budget_s * 0.5:
            break
        if not any(f["window"] is not None for f in desc["factors"]):
            continue
        case = O.Case(ctx, desc)
        if not case.build():
            OD.corpus_rejected(ctx, case)
            if ctx.failures:
                return
            continue
        case.regs = OD.regions(desc, case.geo)
        ctx.count("C15.corpus")
        OD.check_sound(ctx, case, "IterateSATGen", 4, "C15")
        OD.check_sound(ctx, case, "RandomGen", 3, "C15")
        if desc["block"]["k"] == "cross" and any(f["window"] and f["window"]["start"] is not None for f in desc["factors"]):
            # explicit starts: a derivation clause that fires at the wrong trials silently removes valid sequences
            OD.check_exhaust(ctx, case, "IterateSATGen", "C15")
        ctx.case(("C15", "corpus", json.dumps(desc, sort_keys=True)), True)
        if ctx.failures:
            return
    while ctx.elapsed() < t_end:
        desc = O.gen_leaf(g, want_derived=rng.choice([1, 1, 2]), kinds=["AtMostKInARow", "ExactlyK"])
        der = [f for f in desc["factors"] if f["window"] is not None]
        fs = {f["id"]: f for f in desc["factors"]}
        f = rng.choice(der)
        for l in f["levels"]:
            l.pop("else", None)
        mode = rng.choice(["ok", "overlap", "uncovered"])
        w = f["window"]
        # a window tuple with a level at every position (always part of the cross product the library checks)
        digits = []
        for dep in w["deps"]:
            for _ in range(w["width"]):
                digits.append((rng.randrange(len(fs[dep]["levels"])) + 1, len(fs[dep]["levels"]) + 1))
        key = 0
        for dgt, base in digits:
            key = key * base + dgt
        if mode == "overlap":
            for l in f["levels"][:2]:
                l["table"][key] = 1
        elif mode == "uncovered":
            for l in f["levels"]:
                l["table"][key] = 0
        case = O.Case(ctx, desc)
        built = case.build()
        ctx.count("C15." + mode)
        ctx.case(("C15", mode, json.dumps(desc, sort_keys=True)), True,
                 sample={"mode": mode, "design": sample_desc(case), "window_key": key} if len(ctx.samples) < 3 else None)
        if mode == "overlap":
            if built:
                report(ctx, "derived", case, "factor %s has two levels accepting the same window (table index %d) but the block was accepted" % (f["name"], key))
            elif not case.reject.startswith("ValueError"):
                ctx.count("C15.overlap.other-rejection")
            continue
        if not built:
            continue
        case.regs = OD.regions(desc, case.geo)
        blk = case.built.block
        hard = [e for e in blk.errors if not e.startswith("WARNING")]
        if mode == "uncovered":
            if not hard:
                report(ctx, "derived", case, "factor %s has a window (table index %d) matched by no level, but the block reports no error" % (f["name"], key))
                continue
            for strat in ("IterateSATGen", "RandomGen"):
                try:
                    exps = O.synth(case.fresh_block(), 3, strat)
                except (Exception, O.CallTimeout):
                    continue
                if exps:
                    report(ctx, "derived", case, "%s returned %d sequences for a design whose derived factor is not total" % (strat, len(exps)))
            continue
        OD.check_sound(ctx, case, "IterateSATGen", 4, "C15")
        if ctx.failures:
            return


# --------------------------------------------------------------- C23 weights

def _twin(desc):
    """Copy-expanded twin of a design: every weighted simple factor outside all crossings gets w separately named
    copies of each level; derived tables and constraints are rewritten. Returns (twin, back) or None."""
    fs = OD._fmap(desc)
    crossed = set(itertools.chain.from_iterable(OD._crossings(desc["block"])))
    targets = [f["id"] for f in desc["factors"] if f["window"] is None and f["id"] not in crossed and any(l["w"] != 1 for l in f["levels"])]
    if not targets:
        return None
    if any(set(f["window"]["deps"]) & set(targets) for f in desc["factors"] if f["window"]):
        return None          # keep derived tables out of it (they would need re-indexing)
    if any(c.get("f") in targets for c in D.all_constraints(desc["block"])):
        return None
    twin = copy.deepcopy(desc)
    back = {}
    for f in twin["factors"]:
        if f["id"] in targets:
            new = []
            for l in f["levels"]:
                for i in range(l["w"]):
                    nm = l["name"] if i == 0 else "%s#%d" % (l["name"], i + 1)
                    new.append({"name": nm, "w": 1})
                    back[(f["name"], nm)] = l["name"]
            f["levels"] = new
    return twin, back


def oracle_c23(ctx, budget_s):
    ctx.rules.append("C23 oracle: (a) designs with weighted crossed levels: exhausted sets judged by Spec (combination "
                     "multiplicity = product of level weights; printed sequences distinct); (b) designs with a "
                     "weighted non-derived factor outside every crossing vs their copy-expanded twin (w separately "
                     "named copies, mapped back to the original name): equal multisets of printed sequences")
    def gen(g):
        d = O.gen_leaf(g, allow_weights=True, want_derived=ctx.rng.choice([0, 0, 1]), kinds=["AtMostKInARow", "MinimumTrials"])
        for f in d["factors"]:
            if f["window"] is None and ctx.rng.random() < 0.7:
                for l in f["levels"]:
                    l["w"] = ctx.rng.choice([1, 2, 2, 3])
        return d
    for case in gen_cases(ctx, budget_s, max_trials=5, gen_fn=gen, prefer=OD.has_weights):
        got = OD.check_exhaust(ctx, case, "IterateSATGen", "C23")
        ctx.count("C23.weighted")
        tw = _twin(case.desc)
        if tw and got is not None:
            twin, back = tw
            tcase = O.Case(ctx, twin)
            if tcase.build():
                try:
                    exps, done = tcase.exhaust("IterateSATGen")
                except (Exception, O.CallTimeout):
                    exps, done = [], False
                if done:
                    ctx.count("C23.twin")
                    fs = OD._fmap(case.desc)
                    mapped = []
                    for e in exps:
                        mapped.append({k: [back.get((k, v), v) for v in col] for k, col in e.items()})
                    a = multiset(exps_to_seqs(ctx, case, mapped, "twin"))
                    if a != got:
                        report(ctx, "exhaust", case, "weighted design returns %d solutions (%d distinct prints), its copy-expanded twin %d (%d)" % (
                            sum(got.values()), len(got), sum(a.values()), len(a)), None, known_for(case.regs, "C23", "exhaust:twin"))
        if got is not None and not ctx.failures:
            # renaming twin: the same design with numeric / boolean names on the simple factors (names are the
            # predicates' arguments; weights must not depend on what a level is called)
            ndesc = json.loads(json.dumps(case.desc))
            styles = [lambda i: i + 1, lambda i: float(i), lambda i: bool(i)]
            for k, f in enumerate(ndesc["factors"]):
                if f["window"] is None:
                    st = styles[(k + ctx.seed) % 3] if len(f["levels"]) == 2 else styles[(k + ctx.seed) % 2]
                    for i, l in enumerate(f["levels"]):
                        l["name"] = st(i)
            try:
                nblk = D.build(ndesc).block
                exps = O.synth(nblk, O.CAP_SOLUTIONS + 1, "IterateSATGen", timeout=40)
                done = len(exps) <= O.CAP_SOLUTIONS
                built_ok = True
            except O.CallTimeout:
                exps, done, built_ok = [], False, False
            except Exception as ex:
                exps, done, built_ok = [], False, False
                report(ctx, "exception", case, "with the simple levels renamed to numbers / booleans, building or sampling the design "
                       "raised %s: %s (the design with string names works)" % (type(ex).__name__, str(ex)[:120]), None,
                       known_for(case.regs, "C23", "exhaust:renamed"))
            if built_ok:
                if done:
                    ctx.count("C23.renamed")
                    b = multiset([D.exp_to_seq(ndesc, e)[0] for e in exps])
                    if {k: v for k, v in b.items()} != {k: v for k, v in got.items()}:
                        report(ctx, "exhaust", case, "with the simple levels renamed to numbers / booleans the design has %d solutions "
                               "(%d distinct prints), with string names %d (%d)" % (sum(b.values()), len(b), sum(got.values()), len(got)),
                               None, known_for(case.regs, "C23", "exhaust:renamed"))
        ctx.case(("C23", json.dumps(case.desc, sort_keys=True)), True,
                 sample={"design": sample_desc(case), "twin": bool(tw)} if len(ctx.samples) < 3 else None)
        if ctx.failures:
            return


# ------------------------------------------------------- C24 combinator laws

def _exh(ctx, desc):
    case = O.Case(ctx, desc)
    if not case.build():
        return ("rejected", case.reject)
    try:
        exps, done = case.exhaust("IterateSATGen")
    except O.CallTimeout:
        return ("timeout",)
    except Exception as e:
        return ("exc", type(e).__name__ + ": " + str(e)[:100])
    if not done:
        return ("toomany",)
    return ("ok", multiset([D.exp_to_seq(desc, e)[0] for e in exps]))


def reuse_probe(ctx, prop):
    """Combinators used the way programs use them - default arguments, and one block object in two constructions:
    a construction must not depend on what was built before it in the same process.  Every block is compared
    (trial count, exhausted IterateSATGen set) with the same expression built from fresh objects and explicit lists."""
    def count(blk):
        try:
            exps = O.synth(blk, O.CAP_SOLUTIONS + 1, "IterateSATGen", timeout=40)
            return (blk.trials_per_sample(), len(exps), len({json.dumps(e, sort_keys=True) for e in exps}))
        except O.CallTimeout:
            return None
        except Exception as e:
            return ("exception", type(e).__name__)

    def fac():
        return sp.Factor("pa", ["a1", "a2"]), sp.Factor("pb", ["b1", "b2"]), sp.Factor("pc", ["c1", "c2", "c3"])

    def cb(f, cs):
        return quiet(sp.CrossBlock, [f], [f], cs)
    probes = []
    # 1. default-argument combinators after constructions whose parts carry constraints
    A, B, C = fac()
    quiet(sp.Merge, [cb(A, [sp.Pin(0, (A, "a1"))]), cb(B, [])])
    quiet(sp.Repeat, cb(A, [sp.AtMostKInARow(1, (A, "a1"))]), [])
    quiet(sp.Nest, cb(A, [sp.Pin(0, (A, "a2"))]), cb(B, []))
    A2, B2, C2 = fac()
    probes.append(("Merge([x, y]) with default arguments", quiet(sp.Merge, [cb(A, []), cb(B, [])]),
                   quiet(sp.Merge, [cb(A2, []), cb(B2, [])], [], sp.RepeatMode.REPEAT)))
    probes.append(("Nest(x, y) with default arguments", quiet(sp.Nest, cb(A, []), cb(B, [])),
                   quiet(sp.Nest, cb(A2, []), cb(B2, []), [])))
    # 2. one outer block with MinimumTrials nested twice (inner blocks of 2 and 3 trials), then repeated
    A, B, C = fac()
    outer = cb(A, [sp.MinimumTrials(4)])
    quiet(sp.Nest, outer, cb(B, []))
    A2, B2, C2 = fac()
    probes.append(("second Nest of an outer block that carries MinimumTrials", quiet(sp.Nest, outer, cb(C, [])),
                   quiet(sp.Nest, cb(A2, [sp.MinimumTrials(4)]), cb(C2, []), [])))
    A3, B3, C3 = fac()
    probes.append(("Repeat of an outer block that was nested before", quiet(sp.Repeat, outer, [sp.MinimumTrials(8)]),
                   quiet(sp.Repeat, cb(A3, [sp.MinimumTrials(4)]), [sp.MinimumTrials(8)])))
    for what, used, fresh in probes:
        a, b = count(used), count(fresh)
        ctx.count(prop + ".reuse-probe")
        ctx.case((prop, "reuse-probe", what), True)
        if a is not None and b is not None and a != b:
            ctx.fail("%s: %s: (trials, sequences, distinct) = %s, the same expression built from fresh objects and explicit "
                     "lists gives %s" % (prop, what, a, b), {"kind": "reuse-probe", "prop": prop})
            return


def oracle_c24(ctx, budget_s):
    reuse_probe(ctx, "C24")
    if ctx.failures:
        return
    rng = ctx.rng
    ctx.rules.append("C24 oracle: both sides of each documented equivalence are built from fresh objects and exhausted "
                     "with IterateSATGen; the multisets of sequences must be equal: MultiCrossBlock vs Merge of "
                     "CrossBlocks (all modes/alignments), Repeat(b, cs) vs Merge([b], cs, REPEAT, EQUAL_PREAMBLE), "
                     "Repeat(b, []) and Merge([b]) vs b (also with the library's default mode/alignment and b a Repeat or a "
                     "REPEAT-mode MultiCrossBlock), CrossBlock vs MultiCrossBlock(..., [crossing], mode=WEIGHT)")
    g = D.Gen(rng, max_trials=5)
    t_end = ctx.elapsed() + budget_s
    # first: leaves with an *incomplete* crossing (require_complete_crossing=False and an excluded level), under every law
    col, siz = O._sf(0, ["r", "g"]), O._sf(1, ["big", "small"])
    fixed = []
    for cs in ([{"k": "Exclude", "f": 0, "l": 0}, {"k": "AtMostKInARow", "n": 1, "f": 1, "l": 1}], [{"k": "Exclude", "f": 1, "l": 1}]):
        lf = {"factors": [col, siz], "block": {"k": "cross", "design": [0, 1], "crossing": [0, 1], "rcc": False, "cs": cs}}
        for lw in ("repeat-nil", "repeat-merge", "merge-single", "merge-default", "cross-multicross"):
            fixed.append((json.loads(json.dumps(lf)), lw))
    tcol, tsiz = O._sf(0, ["r", "g"]), O._sf(1, ["big", "small"])
    ttr = O._transition(3, 0, 2)
    for al in ("parallel start", "post preamble"):
        x = {"k": "multicross", "design": [0, 1, 3], "crossings": [[1], [0, 3]], "cs": [], "rcc": True, "mode": "repeat", "align": al}
        fixed.append(({"factors": [tcol, tsiz, ttr], "block": x}, "merge-x"))
    while ctx.elapsed() < t_end:
        if fixed and fixed[0][1] == "merge-x":
            # Merge([x]) = x for a MultiCrossBlock with a non-default alignment and crossings of different preambles
            xd, _ = fixed.pop(0)
            lhs = {"factors": xd["factors"], "block": {"k": "merge", "bs": [xd["block"]], "cs": [], "mode": "repeat", "align": None, "defaults": True}}
            a, c = _exh(ctx, lhs), _exh(ctx, xd)
            ctx.count("C24.merge-aligned")
            ctx.case(("C24", "merge-x", json.dumps(lhs, sort_keys=True)), a[0] == "ok" and c[0] == "ok")
            regs = OD.regions(xd)
            if a != c and c[0] == "ok" and "F22" not in regs:
                case = O.Case(ctx, lhs)
                case.regs = regs
                report(ctx, "law", case, "Merge([x]) with x a %s MultiCrossBlock: %s; x itself: %d solutions" % (
                    xd["block"]["align"], a[0] if a[0] != "ok" else "%d solutions" % sum(a[1].values()), sum(c[1].values())), {"law": "merge-x"})
                return
            continue
        if fixed:
            leaf, law = fixed.pop(0)
            ctx.count("C24.incomplete-crossing")
        else:
            leaf = O.gen_leaf(g, small=True, want_derived=rng.choice([0, 0, 1]), kinds=["AtMostKInARow", "Pin", "ExactlyK", "MinimumTrials"])
            law = rng.choice(["repeat-merge", "repeat-nil", "merge-single", "cross-multicross", "multicross-merge", "merge-default"])
        b = leaf["block"]
        fs = OD._fmap(leaf)
        F = leaf["factors"]
        if law == "repeat-merge":
            cs = [{"k": "MinimumTrials", "n": O.leaf_trials(leaf) * rng.choice([1, 2])}] if not any(
                f["window"] is not None and f["id"] in b["crossing"] for f in F) else []
            lhs = {"factors": F, "block": {"k": "repeat", "b": b, "cs": cs}}
            rhs = {"factors": F, "block": {"k": "merge", "bs": [b], "cs": cs, "mode": "repeat", "align": "equal preamble"}}
        elif law == "repeat-nil":
            lhs = {"factors": F, "block": {"k": "repeat", "b": b, "cs": []}}
            rhs = leaf
        elif law == "merge-single":
            lhs = {"factors": F, "block": {"k": "merge", "bs": [b], "cs": [], "mode": "repeat", "align": None}}
            rhs = leaf
        elif law == "merge-default":
            # Merge([X]) with the library's default mode / alignment, X a leaf, a Repeat with whole repetitions, or a
            # REPEAT-mode MultiCrossBlock: the documented meaning is X itself
            simple = [f["id"] for f in F if f["window"] is None]
            shape = rng.choice(["leaf", "repeat", "multicross"])
            if shape == "repeat" and not any(f["window"] is not None and f["id"] in b["crossing"] for f in F):
                x = {"k": "repeat", "b": dict(b, cs=[c for c in b["cs"] if c["k"] != "MinimumTrials"]),
                     "cs": [{"k": "MinimumTrials", "n": O.leaf_trials(leaf) * 2}]}
            elif shape == "multicross" and len(simple) >= 2:
                x = {"k": "multicross", "design": b["design"], "crossings": [[simple[0]], [simple[1]]],
                     "cs": [c for c in b["cs"] if c["k"] != "MinimumTrials"], "rcc": b["rcc"], "mode": "repeat",
                     "align": rng.choice(["equal preamble", "parallel start"])}
            else:
                x = b
            lhs = {"factors": F, "block": {"k": "merge", "bs": [x], "cs": [], "mode": "repeat", "align": None, "defaults": True}}
            rhs = {"factors": F, "block": x}
        elif law == "cross-multicross":
            lhs = leaf
            rhs = {"factors": F, "block": {"k": "multicross", "design": b["design"], "crossings": [b["crossing"]], "cs": b["cs"],
                                           "rcc": b["rcc"], "mode": "weight", "align": "equal preamble"}}
        else:
            simple = [f["id"] for f in F if f["window"] is None]
            if len(simple) < 2:
                continue
            crossings = [[simple[0]], [simple[1]]]
            mode = rng.choice(["weight", "repeat", "equal"])
            align = rng.choice(["equal preamble", "parallel start", "post preamble"])
            cs = [c for c in b["cs"]]
            lhs = {"factors": F, "block": {"k": "multicross", "design": b["design"], "crossings": crossings, "cs": cs,
                                           "rcc": b["rcc"], "mode": mode, "align": align, "as_strings": rng.random() < 0.5}}
            rhs = {"factors": F, "block": {"k": "merge", "cs": cs, "mode": mode, "align": align,
                                           "bs": [{"k": "cross", "design": b["design"], "crossing": c, "cs": [], "rcc": b["rcc"]} for c in crossings]}}
        a = _exh(ctx, lhs)
        c = _exh(ctx, rhs)
        ctx.count("C24." + law)
        regs = OD.regions(lhs) | OD.regions(rhs)
        weighted_uncrossed = any(f["window"] is None and any(l["w"] != 1 for l in f["levels"]) and
                                 f["id"] not in set(itertools.chain.from_iterable(OD._crossings(lhs["block"]))) for f in F)
        case = O.Case(ctx, lhs)
        case.regs = regs
        ctx.case(("C24", law, json.dumps(lhs, sort_keys=True)), a[0] == "ok" and c[0] == "ok",
                 sample={"law": law, "lhs": lhs["block"], "rhs": rhs["block"]} if len(ctx.samples) < 3 else None)
        if a[0] in ("timeout", "toomany") or c[0] in ("timeout", "toomany"):
            continue
        if a != c:
            if a[0] == c[0] and a[0] in ("rejected", "exc") :
                continue                      # both sides refuse (possibly with different messages)
            known = None
            if weighted_uncrossed and "merge" in (lhs["block"]["k"], rhs["block"]["k"]):
                known = "F13"
            if law == "multicross-merge" and any(f["window"] is None and any(l["w"] != 1 for l in f["levels"]) and
                                                  not all(f["id"] in cr for cr in lhs["block"]["crossings"]) for f in F):
                known = "F13"
            for r in ("F22", "F19", "F10"):
                if r in regs:
                    known = known or r
            if law == "multicross-merge" and lhs["block"]["align"] != "equal preamble" and c[0] == "rejected" and "alignments" in str(c[1]):
                known = "F28"
            what = "%s: left side %s, right side %s" % (law, a[0] if a[0] != "ok" else "%d solutions" % sum(a[1].values()),
                                                        c[0] if c[0] != "ok" else "%d solutions" % sum(c[1].values()))
            if a[0] != "ok" or c[0] != "ok":
                what += " (%s / %s)" % (a[1] if len(a) > 1 and a[0] != "ok" else "", c[1] if len(c) > 1 and c[0] != "ok" else "")
            report(ctx, "law", case, what, {"law": law, "rhs": rhs}, known)
        if ctx.failures:
            return


# ------------------------------------------- C25 / C26 compositional oracles

def _project(desc_sub, seq, lo, hi, step=1):
    ids = set(D.block_design_ids(desc_sub["block"]))
    return [[fid, [col[t] for t in range(lo, hi, step)]] for fid, col in seq if fid in ids]


def oracle_c25(ctx, budget_s):
    reuse_probe(ctx, "C25")
    if ctx.failures:
        return
    rng = ctx.rng
    ctx.rules.append("C25 oracle: Nest(outer, inner) of generated leaf blocks without preambles: length = outer trials "
                     "x inner trials; each group of inner-length trials projected on the inner design is valid for the "
                     "inner block alone; the sequence of groups projected on the outer design (one trial per group, "
                     "crossed factors constant in the group) is valid for the outer block alone; the number of "
                     "solutions is (outer solutions with free uncrossed choices) x inner solutions ^ outer trials; "
                     "nested Nest is associative in length and solution count")
    g = D.Gen(rng, max_trials=4)
    t_end = ctx.elapsed() + budget_s
    # nested Nest: both bracketings have the same length, the same sustain structure and the same sequences
    for (na, nb, nc) in ((2, 2, 2), (3, 2, 2), (2, 3, 2), (2, 2, 3)) if ctx.big() else ((2, 2, 2), (3, 2, 2)):
        fa, fb, fc = O._sf(0, ["a1", "a2", "a3"][:na]), O._sf(10, ["b1", "b2", "b3"][:nb]), O._sf(20, ["c1", "c2", "c3"][:nc])
        la = {"k": "cross", "design": [0], "crossing": [0], "rcc": True, "cs": []}
        lb = {"k": "cross", "design": [10], "crossing": [10], "rcc": True, "cs": []}
        lc = {"k": "cross", "design": [20], "crossing": [20], "rcc": True, "cs": []}
        left = {"factors": [fa, fb, fc], "block": {"k": "nest", "cs": [], "align": None, "inner": lc,
                                                  "outer": {"k": "nest", "cs": [], "align": None, "outer": la, "inner": lb}}}
        right = {"factors": [fa, fb, fc], "block": {"k": "nest", "cs": [], "align": None, "outer": la,
                                                   "inner": {"k": "nest", "cs": [], "align": None, "outer": lb, "inner": lc}}}
        res = []
        for dsc in (left, right):
            case = O.Case(ctx, dsc)
            if not case.build():
                res.append(("rejected", case.reject))
                continue
            case.regs = set()
            n = case.built.block.trials_per_sample()
            seqs = OD.check_sound(ctx, case, "IterateSATGen", 30, "C25") or []
            res.append((n, case))
            if n != na * nb * nc:
                report(ctx, "nest", case, "nested Nest of %d x %d x %d trials reports %d trials" % (na, nb, nc, n))
            if case.geo["error"] is None and case.geo["n"] != n:
                report(ctx, "nest", case, "nested Nest: %d trials, documented arithmetic %d" % (n, case.geo["n"]))
        ctx.count("C25.associativity")
        ctx.case(("C25", "assoc", na, nb, nc), True, sample={"associativity": [na, nb, nc]} if len(ctx.samples) < 2 else None)
        if ctx.failures:
            return
        if all(isinstance(r[0], int) for r in res) and res[0][0] != res[1][0]:
            report(ctx, "nest", res[0][1], "Nest(Nest(a,b),c) has %d trials, Nest(a,Nest(b,c)) %d" % (res[0][0], res[1][0]))
            return
    # corpus Nests (constraints on either block, MinimumTrials on the Nest, incomplete outer crossing): trial count by
    # the documented arithmetic, every returned sequence valid, exhausted set = valid set
    for desc in O.corpus_designs(ctx.big()):
        if ctx.elapsed() > t_end - budget_s * 0.4:
            break
        if "nest" not in OD.block_kinds(desc["block"]):
            continue
        case = O.Case(ctx, desc)
        if not case.build():
            OD.corpus_rejected(ctx, case)
            if ctx.failures:
                return
            continue
        case.regs = OD.regions(desc, case.geo)
        ctx.count("C25.corpus")
        n_impl = case.built.block.trials_per_sample()
        if case.geo and case.geo.get("error") is None and case.geo["n"] != n_impl:
            report(ctx, "trialcount", case, "Nest reports %d trials, the documented arithmetic (outer trials x inner length) gives %d" % (
                n_impl, case.geo["n"]), None, known_for(case.regs, "C25", "trialcount"))
        OD.check_sound(ctx, case, "IterateSATGen", 6, "C25")
        OD.check_exhaust(ctx, case, "IterateSATGen", "C25")
        ctx.case(("C25", "corpus", json.dumps(desc, sort_keys=True)), True)
        if ctx.failures:
            return
    while ctx.elapsed() < t_end:
        lo = O.gen_leaf(g, fid0=0, small=True, want_derived=0, kinds=["Pin", "ExactlyK"], allow_weights=False)
        li = O.gen_leaf(g, fid0=10, small=True, want_derived=rng.choice([0, 1]), kinds=["Pin", "AtMostKInARow", "ExactlyK"], allow_weights=False)
        for l in (lo, li):
            l["block"]["cs"] = [c for c in l["block"]["cs"] if c["k"] != "MinimumTrials"]
            l["block"]["rcc"] = True
        fsi = OD._fmap(li)
        li["block"]["crossing"] = [c for c in li["block"]["crossing"] if fsi[c]["window"] is None] or [li["factors"][0]["id"]]
        lo["block"]["crossing"] = lo["block"]["crossing"][:1]
        lo["block"]["design"] = lo["block"]["crossing"][:]          # outer block: only its crossed factor
        lo["factors"] = [f for f in lo["factors"] if f["id"] in lo["block"]["design"]]
        lo["block"]["cs"] = [c for c in lo["block"]["cs"] if c.get("f") in lo["block"]["crossing"]]
        if any(fsi[f["id"]]["window"] is not None and fsi[f["id"]]["window"]["width"] > 1 for f in li["factors"]):
            # windows of inner derived factors reach across group boundaries: the per-group projection is not the inner block's own sequence
            continue
        nest = {"factors": lo["factors"] + li["factors"],
                "block": {"k": "nest", "outer": lo["block"], "inner": li["block"], "cs": [], "align": None}}
        case = O.Case(ctx, nest)
        if not case.build():
            continue
        case.regs = OD.regions(nest, case.geo)
        co, ci = O.Case(ctx, lo), O.Case(ctx, li)
        if not co.build() or not ci.build():
            continue
        no, ni = co.built.block.trials_per_sample(), ci.built.block.trials_per_sample()
        n = case.built.block.trials_per_sample()
        ctx.count("C25.nest")
        if n != no * ni:
            report(ctx, "nest", case, "Nest has %d trials, outer %d x inner %d" % (n, no, ni))
            continue
        try:
            exps, done = case.exhaust("IterateSATGen")
        except (Exception, O.CallTimeout) as e:
            report(ctx, "exception", case, "IterateSATGen raised %s on a Nest" % type(e).__name__, None, known_for(case.regs, "C25", "sat-exception:" + type(e).__name__))
            continue
        seqs = exps_to_seqs(ctx, case, exps, "IterateSATGen")
        for s in seqs[:20]:
            groups_ok = True
            for gi in range(no):
                sub = _project(li, s, gi * ni, (gi + 1) * ni)
                v = O.lean_valid(ctx, li, [sub])[0]
                if v:
                    report(ctx, "nest", case, "group %d of a Nest sequence is not valid for the inner block (%s): %s" % (gi, ",".join(v), O.fmt_seq(nest, s)))
                    groups_ok = False
                    break
            if not groups_ok:
                break
            for fid, col in s:
                if fid in lo["block"]["crossing"] and any(len(set(col[gi * ni:(gi + 1) * ni])) != 1 for gi in range(no)):
                    report(ctx, "nest", case, "outer crossed factor changes inside a group: %s" % O.fmt_seq(nest, s))
                    groups_ok = False
            if not groups_ok:
                break
            outer_seq = _project(lo, s, 0, n, ni)
            v = O.lean_valid(ctx, lo, [outer_seq])[0]
            if v:
                report(ctx, "nest", case, "the sequence of groups is not valid for the outer block (%s): %s" % (",".join(v), O.fmt_seq(nest, s)))
                break
        if done and not ctx.failures:
            vo, vi = co.valid_seqs(), ci.valid_seqs()
            if vo is not None and vi is not None:
                want = len(vo) * (len(vi) ** no)
                if want != len(seqs):
                    report(ctx, "nest", case, "Nest has %d solutions, outer %d x inner %d ^ %d = %d expected" % (len(seqs), len(vo), len(vi), no, want),
                           None, known_for(case.regs, "C25", "exhaust:count"))
        ctx.case(("C25", json.dumps(nest, sort_keys=True)), True,
                 sample={"nest": nest["block"], "trials": n, "solutions": len(seqs)} if len(ctx.samples) < 3 else None)
        if ctx.failures:
            return


def oracle_c26(ctx, budget_s):
    reuse_probe(ctx, "C26")
    if ctx.failures:
        return
    rng = ctx.rng
    ctx.rules.append("C26 oracle: Repeat(b, [MinimumTrials(r x size)]) of generated leaf blocks without preambles or "
                     "multi-trial windows: a sequence is returned iff every repetition, projected, is valid for b alone "
                     "(solutions = solutions(b) ^ r); the same constraint given to the Repeat instead of the block "
                     "must hold on the whole sequence (checked by Spec on both placements, which must differ exactly "
                     "when a run or count crosses a repetition boundary)")
    g = D.Gen(rng, max_trials=4)
    t_end = ctx.elapsed() + budget_s
    # corpus: composed blocks first (constraints given to the block vs to the combinator, weighted factors, Nest)
    for desc in O.corpus_designs(ctx.big()):
        if ctx.elapsed() > t_end - budget_s * 0.5:
            break
        if desc["block"]["k"] == "cross":
            continue
        case = O.Case(ctx, desc)
        if not case.build():
            OD.corpus_rejected(ctx, case)
            if ctx.failures:
                return
            continue
        case.regs = OD.regions(desc, case.geo)
        ctx.count("C26.corpus")
        OD.check_sound(ctx, case, "IterateSATGen", 6, "C26")
        OD.check_exhaust(ctx, case, "IterateSATGen", "C26")
        ctx.case(("C26", "corpus", json.dumps(desc, sort_keys=True)), True)
        if ctx.failures:
            return
    # Nest whose outer block has a preamble (Transition in its crossing) and its own constraints: the sequence of
    # groups must be exactly what the outer block allows on its own (its window includes the stretched preamble)
    A2 = O._sf(0, ["a1", "a2"])
    trA = O._transition(1, 0, 2)
    S2 = O._sf(10, ["s1", "s2"])
    for ct in ({"k": "Pin", "idx": 0, "f": 0, "l": 0}, {"k": "Pin", "idx": 1, "f": 0, "l": 0}, {"k": "Pin", "idx": -1, "f": 0, "l": 0},
               {"k": "ExactlyK", "n": 3, "f": 0, "l": 0}, {"k": "AtMostKInARow", "n": 1, "f": 0, "l": 1}):
        if ctx.elapsed() > t_end:
            break
        outer = {"factors": [A2, trA], "block": {"k": "cross", "design": [0, 1], "crossing": [0, 1], "rcc": True, "cs": [ct]}}
        nest = {"factors": [A2, trA, S2], "block": {"k": "nest", "cs": [], "align": "post preamble", "outer": outer["block"],
                "inner": {"k": "cross", "design": [10], "crossing": [10], "rcc": True, "cs": []}}}
        cn, co = O.Case(ctx, nest), O.Case(ctx, outer)
        if not cn.build() or not co.build():
            continue
        cn.regs = set()
        want = co.valid_seqs()
        try:
            exps, done = cn.exhaust("IterateSATGen")
        except (Exception, O.CallTimeout):
            continue
        ctx.count("C26.nest-preamble")
        if want is None or not done:
            continue
        ni = 2
        got = set()
        for e in exps:
            sq, _ = D.exp_to_seq(nest, e)
            got.add(D.seq_key(_project(outer, sq, 0, len(sq[0][1]), ni)))
        wantk = {D.seq_key(x) for x in want}
        ctx.case(("C26", "nest-preamble", json.dumps(ct, sort_keys=True)), True)
        if got != wantk:
            report(ctx, "nest", cn, "Nest over an outer block with a preamble and the constraint %s: the group sequences are %d, the "
                   "outer block alone allows %d (%d only in the Nest, %d missing)" % (ct, len(got), len(wantk), len(got - wantk), len(wantk - got)), None, None)
            return
    while ctx.elapsed() < t_end:
        leaf = O.gen_leaf(g, small=True, want_derived=rng.choice([0, 0, 1]), kinds=["Pin", "ExactlyK"] + O.RUN_KINDS, allow_weights=False)
        b = leaf["block"]
        fs = OD._fmap(leaf)
        b["cs"] = [c for c in b["cs"] if c["k"] != "MinimumTrials"]
        b["crossing"] = [c for c in b["crossing"] if fs[c]["window"] is None] or [leaf["factors"][0]["id"]]
        if any(f["window"] is not None and f["window"]["width"] > 1 for f in leaf["factors"]):
            continue
        size = O.leaf_trials(leaf)
        r = rng.choice([2, 2, 3])
        if size * r > 8:
            continue
        rep = {"factors": leaf["factors"], "block": {"k": "repeat", "b": b, "cs": [{"k": "MinimumTrials", "n": size * r}]}}
        glob = {"factors": leaf["factors"], "block": {"k": "repeat", "b": dict(b, cs=[]), "cs": [{"k": "MinimumTrials", "n": size * r}] + b["cs"]}}
        cl = O.Case(ctx, leaf)
        cr = O.Case(ctx, rep)
        cg = O.Case(ctx, glob)
        if not (cl.build() and cr.build() and cg.build()):
            continue
        cr.regs = OD.regions(rep, cr.geo)
        if cl.built.block.trials_per_sample() != size:
            continue                      # exclusions changed the size; keep to whole repetitions
        ctx.count("C26.repeat")
        for case, scope in ((cr, "block"), (cg, "combinator")):
            case.regs = OD.regions(case.desc, case.geo)
            try:
                exps, done = case.exhaust("IterateSATGen")
            except (Exception, O.CallTimeout) as e:
                report(ctx, "exception", case, "IterateSATGen raised %s" % type(e).__name__, None, known_for(case.regs, "C26", "sat-exception:" + type(e).__name__))
                continue
            seqs = exps_to_seqs(ctx, case, exps, "IterateSATGen")
            verdicts = O.lean_valid(ctx, case.desc, seqs)
            for s, v in zip(seqs, verdicts):
                if v:
                    report(ctx, "sound", case, "constraint given to the %s: returned sequence violates it (%s): %s" % (scope, ",".join(v), O.fmt_seq(case.desc, s)),
                           {"seq": s}, known_for(case.regs, "C26", "sound:" + ("derived" if "derived" in v else ("crossing" if any(x.startswith("crossing") for x in v) else "constraint"))))
                    break
            if scope == "block":
                for s in seqs[:30]:
                    for j in range(r):
                        sub = _project(leaf, s, j * size, (j + 1) * size)
                        v = O.lean_valid(ctx, leaf, [sub])[0]
                        if v:
                            report(ctx, "scope", case, "repetition %d is not valid for the block on its own (%s): %s" % (j, ",".join(v), O.fmt_seq(rep, s)), {"seq": s})
                            break
                    if ctx.failures:
                        break
                if done:
                    vl = cl.valid_seqs()
                    if vl is not None and len(vl) ** r != len(seqs):
                        report(ctx, "scope", case, "Repeat of %d repetitions has %d solutions, the block alone has %d (expected %d)" % (
                            r, len(seqs), len(vl), len(vl) ** r), None, known_for(case.regs, "C26", "exhaust:count"))
            else:
                if done:
                    vg = case.valid_seqs()
                    if vg is not None and len(vg) != len(seqs):
                        report(ctx, "scope", case, "constraint given to the Repeat: %d solutions returned, %d sequences satisfy it on the whole sequence" % (
                            len(seqs), len(vg)), None, known_for(case.regs, "C26", "exhaust:count"))
        ctx.case(("C26", json.dumps(rep, sort_keys=True)), bool(b["cs"]),
                 sample={"block": rep["block"], "combinator_variant": glob["block"]} if len(ctx.samples) < 3 else None)
        if ctx.failures:
            return


# ------------------------------------------------------------------ C29 SMGen

def oracle_c29(ctx, budget_s):
    ctx.rules.append("C29 oracle: SMGen on generated designs; a raised Exception whose message says the feature is "
                     "'not supported by SMGen' / 'Unsupported level' is the documented refusal; every sequence it "
                     "returns otherwise is judged by Spec (SMGen runs in a child process with a timeout because its "
                     "search uses a timer thread)")
    def gen(g):
        r = ctx.rng.random()
        if r < 0.8:
            d = O.gen_leaf(g, kinds=[], want_derived=ctx.rng.choice([0, 1, 1]), allow_weights=ctx.rng.random() < 0.3)
            fsx = OD._fmap(d)
            der = [f for f in d["factors"] if f["window"] and f["window"]["kind"] in ("within", "transition") and len(f["window"]["deps"]) == 1]
            if der and ctx.rng.random() < 0.6:
                f = ctx.rng.choice(der)
                if f["id"] not in d["block"]["crossing"]:
                    d["block"]["crossing"] = [c for c in d["block"]["crossing"] if c not in f["window"]["deps"]][:1] + [f["id"]]
                if ctx.rng.random() < 0.6:
                    for l in f["levels"]:
                        l["w"] = ctx.rng.choice([1, 2, 3])
            return d
        return O.gen_design(g)
    # SMGen keeps module-level state: the same structure with different derived-level weights, back to back in one process
    for kind in ("within", "transition"):
        for (wa, wb) in (((2, 1), (3, 1)), ((1, 2), (2, 1)), ((3, 1), (1, 1))):
            pair = []
            for ws in (wa, wb, wa):
                col, wrd = O._sf(0, ["r", "g"]), O._sf(1, ["r", "g"])
                if kind == "within":
                    eq = [0] * 9
                    eq[4] = eq[8] = 1
                    der = {"id": 2, "name": "f2", "window": {"deps": [0, 1], "width": 1, "stride": 1, "start": None, "kind": "within"},
                           "levels": [{"name": "con", "w": ws[0], "table": eq}, {"name": "inc", "w": ws[1], "table": [1 - x for x in eq]}]}
                else:
                    der = O._transition(2, 0, 2)
                    der["levels"][0]["w"], der["levels"][1]["w"] = ws
                dsc = {"factors": [col, wrd, der], "block": {"k": "cross", "design": [0, 1, 2], "crossing": [0, 2] if kind == "within" else [1, 2], "rcc": True, "cs": []}}
                c = O.Case(ctx, dsc)
                if c.build():
                    c.regs = OD.regions(dsc, c.geo)
                    pair.append(c)
            res = O.synth_sequence([{"desc": c.desc, "n": 2, "strategy": "SMGen"} for c in pair], timeout=60)
            ctx.count("C29.stateful-sequences")
            for c, r in (zip(pair, res) if res is not None else []):
                _c29_judge(ctx, c, r)
                if ctx.failures:
                    return
    # MinimumTrials above the crossing size with a derived factor listed first in the design (the level
    # multiplication must still reach the first basic factor)
    col, siz = O._sf(0, ["r", "g"]), O._sf(1, ["big", "small"])
    eq = [0] * 9
    eq[4] = eq[8] = 1
    mt = {"id": 2, "name": "f2", "window": {"deps": [0, 1], "width": 1, "stride": 1, "start": None, "kind": "within"},
          "levels": [{"name": "same", "w": 1, "table": eq}, {"name": "diff", "w": 1, "table": [1 - x for x in eq]}]}
    sh3 = O._sf(0, ["a", "b", "c"])
    min_cases = []
    for F, design, crossing, n in (([col, siz, mt], [2, 0, 1], [0, 1], 6), ([col, siz, mt], [2, 0, 1], [0, 1], 8),
                                   ([col, siz, mt], [0, 1, 2], [0, 1], 6), ([sh3, O._transition(1, 0, 3)], [1, 0], [0], 7),
                                   ([sh3, O._transition(1, 0, 3)], [1, 0], [0], 6)):
        dsc = {"factors": F, "block": {"k": "cross", "design": design, "crossing": crossing, "rcc": True,
               "cs": [{"k": "MinimumTrials", "n": n}]}}
        c = O.Case(ctx, dsc)
        if c.build():
            c.regs = OD.regions(dsc, c.geo)
            min_cases.append(c)
    res = O.synth_sequence([{"desc": c.desc, "n": 3, "strategy": "SMGen"} for c in min_cases], timeout=90)
    ctx.count("C29.minimum-trials-derived-first")
    for c, r in (zip(min_cases, res) if res is not None else []):
        _c29_judge(ctx, c, r)
        if ctx.failures:
            return
    # a preamble trial (Transition in the crossing) together with a WithinTrial factor that SMGen has to fill in
    # itself (crossed, or the argument of the crossed Transition): more sequences per call, the preamble row is random
    col, siz = O._sf(0, ["r", "g"]), O._sf(1, ["big", "small"])
    eq = [0] * 9
    eq[4] = eq[8] = 1
    mt = {"id": 2, "name": "f2", "window": {"deps": [0, 1], "width": 1, "stride": 1, "start": None, "kind": "within"},
          "levels": [{"name": "same", "w": 1, "table": eq}, {"name": "diff", "w": 1, "table": [1 - x for x in eq]}]}
    pre_cases = []
    for crossing, trdep in (([2, 3], 0), ([3, 1], 0), ([1, 3], 0), ([3, 2], 0), ([3], 2)):
        tr = O._transition(3, trdep, 2)
        dsc = {"factors": [col, siz, mt, tr], "block": {"k": "cross", "design": [0, 1, 2, 3], "crossing": crossing, "rcc": True, "cs": []}}
        c = O.Case(ctx, dsc)
        if c.build():
            c.regs = OD.regions(dsc, c.geo)
            pre_cases.append(c)
    res = O.synth_sequence([{"desc": c.desc, "n": 12, "strategy": "SMGen"} for c in pre_cases], timeout=90)
    ctx.count("C29.preamble-within")
    for c, r in (zip(pre_cases, res) if res is not None else []):
        _c29_judge(ctx, c, r)
        if ctx.failures:
            return
    batch = []
    def flush():
        """run the collected designs one after the other in ONE child process (SMGen keeps module-level state)"""
        res = O.synth_sequence([{"desc": c.desc, "n": 2, "strategy": "SMGen"} for c in batch], timeout=40 * len(batch))
        out = list(zip(batch, res)) if res is not None else [(c, ("timeout",)) for c in batch]
        del batch[:]
        return out
    pending = []
    for case in gen_cases(ctx, budget_s, max_trials=6, gen_fn=gen, corpus=False):
        batch.append(case)
        if len(batch) < 3:
            continue
        pending = flush()
        for case, r in pending:
            _c29_judge(ctx, case, r)
            if ctx.failures:
                return
    for case, r in (flush() if batch else []):
        _c29_judge(ctx, case, r)


def _c29_judge(ctx, case, r):
    if True:
        ctx.count("C29." + r[0])
        known = None
        ks = {c["k"] for c in D.all_constraints(case.desc["block"])}
        structure = case.desc["block"]["k"] != "cross"
        fsm = OD._fmap(case.desc)
        if ks & {"ExactlyKInARow", "Sequential"} or structure:
            known = "F6"
        elif "MinimumTrials" in ks:
            # SMGen realises MinimumTrials by multiplying the levels of the first basic factor of the design; that is
            # the documented behaviour exactly when this factor is in the crossing - elsewhere the finding F6 applies
            basic = [i for i in case.desc["block"]["design"] if fsm[i]["window"] is None]
            if not basic or basic[0] not in case.desc["block"].get("crossing", []):
                known = "F6"
        want_refuse = None
        if case.desc["block"]["k"] in ("cross", "multicross") and r[0] in ("exc", "ok"):
            ncross = 1 if case.desc["block"]["k"] == "cross" else len(case.desc["block"]["crossings"])
            # SMGen reads a derived factor's kind off its *first* level; the window of an ElseLevel is a general Window,
            # so a factor that lists its ElseLevel first is refused like one with a general window
            wins = [("window" if fsm[i]["levels"][0].get("else") else fsm[i]["window"]["kind"])
                    for i in D.block_design_ids(case.desc["block"]) if fsm[i]["window"]]
            want_refuse = ctx.drv().ask({"op": "conform", "m": "smgen_refuses", "n": ncross, "kinds": sorted(ks), "windows": wins})["ok"]
            refused = r[0] == "exc" and r[1] == "Exception" and ("nsupported" in r[2] or "not supported" in r[2])
            arity = any(fsm[i]["window"] and fsm[i]["window"]["kind"] == "transition" and len(fsm[i]["window"]["deps"]) > 1
                        for i in D.block_design_ids(case.desc["block"]))
            ctx.count("I11s.refusal")
            if refused != want_refuse and not (refused and arity):
                ctx.corr_break("I11s.smgen_refusal", {"crossings": ncross, "kinds": sorted(ks), "windows": wins}, refused, want_refuse)
        if r[0] == "exc":
            if r[1] == "Exception" and ("nsupported" in r[2] or "not supported" in r[2]):
                ctx.count("C29.refused")
            else:
                report(ctx, "exception", case, "SMGen raised %s: %s" % (r[1], r[2][:150]), {"strategy": "SMGen"}, known or known_for(case.regs, "C29", "sat-exception:" + r[1]))
        elif r[0] == "ok":
            seqs = exps_to_seqs(ctx, case, r[1], "SMGen")
            for s, v in zip(seqs, O.lean_valid(ctx, case.desc, seqs)):
                if v:
                    report(ctx, "sound", case, "SMGen returned a sequence that is not valid for the design (%s): %s" % (",".join(v), O.fmt_seq(case.desc, s)),
                           {"strategy": "SMGen", "seq": s}, known or known_for(case.regs, "C29", "sound:" + ("derived" if "derived" in v else "other")))
                    break
        ctx.case(("C29", json.dumps(case.desc, sort_keys=True)), r[0] == "ok",
                 sample={"design": sample_desc(case), "outcome": r[0]} if len(ctx.samples) < 3 else None)
        if ctx.failures:
            return


# ------------------------------------------------------- C05 RandomGen draws

class _Script:
    """Scripted replacement for random.randrange: follows `script`, then 0; records the bounds asked for."""

    def __init__(self, script):
        self.script = script
        self.bounds = []

    def __call__(self, a, b=None):
        lo, hi = (0, a) if b is None else (a, b)
        i = len(self.bounds)
        self.bounds.append(hi - lo)
        v = self.script[i] if i < len(self.script) else 0
        return lo + v


def draw_tree(enumerator, rounds, leftover, limit=4000):
    """Every path of random choices of generate_random_samples: [(key, probability denominator)] or None if too large."""
    import random as stdrandom
    real = stdrandom.randrange
    leaves = []
    script = []
    try:
        while True:
            sc = _Script(script)
            stdrandom.randrange = sc
            try:
                res = enumerator.generate_random_samples(rounds, leftover, {})
            finally:
                stdrandom.randrange = real
            key = enumerator.extract_sequence_key(res)
            denom = 1
            for b in sc.bounds:
                denom *= b
            leaves.append((key, denom))
            if len(leaves) > limit:
                return None
            # next path
            path = [(sc.script[i] if i < len(sc.script) else 0) for i in range(len(sc.bounds))]
            i = len(path) - 1
            while i >= 0 and path[i] + 1 >= sc.bounds[i]:
                i -= 1
            if i < 0:
                return leaves
            script = path[:i] + [path[i] + 1]
    finally:
        stdrandom.randrange = real


def oracle_c05(ctx, budget_s):
    from sweetpea._internal.sampling_strategy.random import UCSolutionEnumerator
    ctx.rules.append("C05 oracle: (a) the tree of all random choices of RandomGen's draw procedure is enumerated with a "
                     "scripted random.randrange: every path must end in a distinct candidate key, all paths must have "
                     "the same probability (product of the bounds) and their number must equal the candidate count "
                     "RandomGen uses as its stopping criterion; (b) the exhausted RandomGen run returns every valid "
                     "sequence exactly once (accepted candidates <-> Spec.validSeqs)")
    def first(desc):
        # where candidates are filtered after they are drawn: an Exclude on a basic factor outside the crossing
        # (above all one that feeds a crossed derived factor), and preambles
        fs = OD._fmap(desc)
        crossed = set(x for cr in OD._crossings(desc["block"]) for x in cr)
        if any(c["k"] == "Exclude" and fs[c["f"]]["window"] is None and c["f"] not in crossed
               for c in D.all_constraints(desc["block"])):
            return True
        # ... and an Exclude on a crossed derived level next to a preamble (the preamble trial is drawn freely and
        # only the rejection step removes the excluded level there)
        return any(c["k"] == "Exclude" and fs[c["f"]]["window"] is not None and c["f"] in crossed
                   for c in D.all_constraints(desc["block"])) and any(OD._is_complex(fs, f) for f in crossed)
    for case in gen_cases(ctx, budget_s, max_trials=5, prefer=first):
        if not case.random_ok(bound=2500):
            ctx.count("skip.random-space")
            if first(case.desc):
                # too many candidates to walk the draw tree: at least every accepted candidate must be a valid sequence
                OD.check_sound(ctx, case, "RandomGen", 12, "C05")
                ctx.count("C05.sound-only")
                if ctx.failures:
                    return
            continue
        blk = case.fresh_block()
        if quiet(blk.show_errors):
            continue
        try:
            en = quiet(UCSolutionEnumerator, blk)
        except Exception as e:
            report(ctx, "exception", case, "RandomGen set-up raised %s" % type(e).__name__, None, known_for(case.regs, "C05", "random-exception:" + type(e).__name__))
            continue
        n = blk.trials_per_sample()
        if en.solution_count() == 0:
            continue
        rounds = (n - en._preamble_size) // en.crossing_size
        leftover = (n - en._preamble_size) % en.crossing_size
        possible = en.preamble_solution_count() * pow(en.solution_count(), rounds) * en.leftover_solution_count()
        try:
            leaves = quiet(draw_tree, en, rounds, leftover)
        except Exception as e:
            report(ctx, "exception", case, "RandomGen draw raised %s: %s" % (type(e).__name__, str(e)[:100]), None,
                   known_for(case.regs, "C05", "random-exception:" + type(e).__name__))
            continue
        ctx.count("C05.trees")
        if leaves is not None:
            keys = [k for k, _ in leaves]
            denoms = {d for _, d in leaves}
            shapes_differ = len(set(en._components_shape.combinations_shapes)) > 1
            known = "F15" if (leftover > 0 or not en._crossing_is_unweighted) and shapes_differ else known_for(case.regs, "C05", "count")
            if len(set(keys)) != len(keys):
                report(ctx, "uniform", case, "two different random paths produce the same candidate key", None, known)
            elif len(denoms) > 1:
                report(ctx, "uniform", case, "candidate keys are not equally likely: path probabilities 1/%s" % sorted(denoms)[:4], None, known)
            elif len(keys) != possible:
                report(ctx, "uniform", case, "%d candidate keys can be drawn but RandomGen counts %d" % (len(keys), possible), None, known)
        got = OD.check_exhaust(ctx, case, "RandomGen", "C05")
        ctx.case(("C05", json.dumps(case.desc, sort_keys=True)), leaves is not None and len(leaves) > 1,
                 sample={"design": sample_desc(case), "draw_paths": None if leaves is None else len(leaves), "candidate_count": possible} if len(ctx.samples) < 3 else None)
        if ctx.failures:
            return


# ------------------------------------------------------------- C18 sharing

def oracle_c18(ctx, budget_s):
    rng = ctx.rng
    ctx.rules.append("C18 oracle: two blocks over one pool of factor objects that share a constraint object are built "
                     "in both orders; each block's exhausted IterateSATGen set and its mismatch verdicts are compared "
                     "with the same block built from fresh, unshared objects")
    g = D.Gen(rng, max_trials=5)
    t_end = ctx.elapsed() + budget_s
    while ctx.elapsed() < t_end:
        leaf = O.gen_leaf(g, small=False, want_derived=rng.choice([0, 0, 1]), kinds=[], allow_weights=False)
        fs = OD._fmap(leaf)
        simple = [f["id"] for f in leaf["factors"] if f["window"] is None]
        if len(simple) < 2:
            continue
        kind = rng.choice(O.RUN_KINDS + ["ExactlyK", "Pin", "Exclude"])
        pool = [f["id"] for f in leaf["factors"] if f["window"] is None or f["window"]["stride"] == 1]
        if kind == "Pin":
            pool = simple
        shared_c = g.constraint(leaf["factors"], pool, 3, [kind])
        shared_c["obj"] = "shared0"
        b1 = {"k": "cross", "design": leaf["block"]["design"], "crossing": [simple[0]], "cs": [shared_c], "rcc": kind != "Exclude"}
        b2 = {"k": "cross", "design": leaf["block"]["design"], "crossing": simple[:2], "cs": [shared_c], "rcc": kind != "Exclude"}
        if rng.random() < 0.4:
            b2 = {"k": "repeat", "b": dict(b1, cs=[shared_c]), "cs": [{"k": "MinimumTrials", "n": 2 * len(fs[simple[0]]["levels"])}]}
        descs = [{"factors": leaf["factors"], "block": b} for b in (b1, b2)]
        fresh = []
        for dsc in descs:
            fresh.append(_exh(ctx, dsc))
        if any(f[0] != "ok" for f in fresh):
            continue
        ctx.count("C18.pairs")
        for order in ((0, 1), (1, 0)):
            built = D.Built()
            try:
                for f in sorted(leaf["factors"], key=lambda f: f["id"]):
                    built.factors[f["id"]] = D.build_factor(leaf, f["id"], built)
                shared = {}
                blocks = {}
                for i in order:
                    blocks[i] = quiet(D.build_block, leaf, descs[i]["block"], built, shared)
            except Exception as e:
                ctx.count("C18.rejected")
                continue
            for i in order:
                try:
                    exps = O.synth(blocks[i], O.CAP_SOLUTIONS + 1, "IterateSATGen", timeout=40)
                except (Exception, O.CallTimeout) as e:
                    exps = None
                if exps is None or len(exps) > O.CAP_SOLUTIONS:
                    continue
                got = multiset([D.exp_to_seq(descs[i], e)[0] for e in exps])
                same_geometry = fresh[0][1] is not None and _ntrials(descs[0]) == _ntrials(descs[1])
                if got != fresh[i][1]:
                    known = "F4" if kind != "Exclude" and not same_geometry else None
                    case = O.Case(ctx, descs[i])
                    case.regs = set()
                    report(ctx, "sharing", case, "block %d built %s with a shared %s object has %d solutions, %d with fresh objects" % (
                        i, "first" if order[0] == i else "second", kind, sum(got.values()), sum(fresh[i][1].values())),
                        {"other": descs[1 - i]["block"], "order": list(order)}, known)
        ctx.case(("C18", json.dumps(descs, sort_keys=True)), True,
                 sample={"shared_constraint": shared_c, "blocks": [d["block"] for d in descs]} if len(ctx.samples) < 3 else None)
        if ctx.failures:
            return


def oracle_c18_blocks(ctx, budget_s):
    """Block and MinimumTrials objects reused across Nest / Repeat / Merge / CrossBlock constructions."""
    rng = ctx.rng
    ctx.rules.append("C18 oracle (blocks): one outer block object and one MinimumTrials object are reused in a "
                     "random sequence of constructions (Nest twice, Repeat, Merge, a second CrossBlock); every block "
                     "must have the trial count and exhausted set of the same expression built from fresh objects")
    t_end = ctx.elapsed() + budget_s
    _c18_argument_lists(ctx)
    if ctx.failures:
        return
    it = 0
    while ctx.elapsed() < t_end:
        it += 1
        o = O._sf(0, ["o1", "o2", "o3"][:rng.choice([2, 2, 3])])
        i1 = O._sf(10, ["i1", "i2", "i3"][:rng.choice([2, 3])])
        u = O._sf(11, ["u", "v"])
        mt = {"k": "MinimumTrials", "n": rng.choice([2, 4, 4, 6]), "obj": "mt"}
        ocs = [mt] + ([{"k": "Pin", "idx": 0, "f": 0, "l": 0, "obj": "pin"}] if rng.random() < 0.3 else [])
        outer = {"k": "cross", "design": [0], "crossing": [0], "rcc": True, "cs": ocs, "obj": "outer"}
        inner = {"k": "cross", "design": [10, 11], "crossing": [10], "rcc": True, "cs": [], "obj": "inner"}
        factors = [o, i1, u]
        nest_align = None
        if it <= 2 or rng.random() < 0.3:
            # an outer block with a preamble: a Transition factor in its crossing (its variables are numbered by the
            # trials it applies to, which depends on the block's sustain count)
            o = O._sf(0, ["o1", "o2"])
            tr = O._transition(3, 0, 2)
            outer = {"k": "cross", "design": [0, 3], "crossing": [0, 3], "rcc": True, "cs": [], "obj": "outer"}
            inner = {"k": "cross", "design": [10], "crossing": [10], "rcc": True, "cs": [], "obj": "inner"}
            i1 = O._sf(10, ["i1", "i2"])
            factors = [o, tr, i1]
            nest_align = "post preamble"
            ocs = []
            ctx.count("C18.block-histories.preamble")
        exprs = [
            {"k": "nest", "outer": outer, "inner": inner, "cs": [], "align": nest_align},
            outer,
            {"k": "nest", "outer": outer, "inner": inner, "cs": [], "align": nest_align},
            {"k": "cross", "design": outer["design"], "crossing": outer["crossing"], "rcc": True, "cs": [mt] if nest_align is None else []},
            {"k": "repeat", "b": outer, "cs": []},
            {"k": "merge", "bs": [outer], "cs": [], "mode": "repeat", "align": None},
        ]
        order = [exprs[j] for j in rng.sample(range(len(exprs)), rng.randint(2, 4))]
        if not any(e["k"] == "nest" for e in order):
            order.insert(0, exprs[0])
        if it == 1:
            order = [exprs[0], exprs[1]]          # the Nest first, then the block it was made from
        elif it == 2:
            order = [exprs[1], exprs[0]]
        elif it == 3:
            order = [exprs[0], exprs[3]]          # the MinimumTrials object of the nested block reused by a new CrossBlock
        elif it == 4:
            order = [exprs[3], exprs[0], exprs[4]]
        elif it in (5, 6, 7):
            # one outer block nested / merged twice, with partner blocks whose crossing weights differ
            # (MinimumTrials doubles the inner crossing in one of them)
            o = O._sf(0, ["o1", "o2"])
            i1, j1 = O._sf(10, ["i1", "i2"]), O._sf(12, ["j1", "j2"])
            factors = [o, i1, j1]
            outer = {"k": "cross", "design": [0], "crossing": [0], "rcc": True, "cs": [], "obj": "outer"}
            in_w = {"k": "cross", "design": [10], "crossing": [10], "rcc": True, "cs": [{"k": "MinimumTrials", "n": 4}], "obj": "inw"}
            in_p = {"k": "cross", "design": [12], "crossing": [12], "rcc": True, "cs": [], "obj": "inp"}
            ocs = []
            a = {"k": "nest", "outer": outer, "inner": in_w, "cs": [], "align": None}
            b = {"k": "nest", "outer": outer, "inner": in_p, "cs": [], "align": None}
            order = {5: [a, b], 6: [b, a], 7: [a, {"k": "merge", "bs": [outer, in_p], "cs": [], "mode": "repeat", "align": None}]}[it]
            ctx.count("C18.block-histories.weights")
        elif it in (8, 9, 10):
            # a Nest that is given constraints of its own, then its inner (or outer) block used again elsewhere
            o = O._sf(0, ["o1", "o2"])
            i1 = O._sf(10, ["i1", "i2"])
            factors = [o, i1]
            outer = {"k": "cross", "design": [0], "crossing": [0], "rcc": True, "cs": [], "obj": "outer"}
            inner = {"k": "cross", "design": [10], "crossing": [10], "rcc": True, "cs": [], "obj": "inner"}
            ocs = []
            ncs = {8: [{"k": "AtMostKInARow", "n": 1, "f": 10, "l": 0}], 9: [{"k": "Pin", "idx": 0, "f": 10, "l": 1}],
                   10: [{"k": "ExactlyK", "n": 1, "f": 0, "l": 0}]}[it]
            a = {"k": "nest", "outer": outer, "inner": inner, "cs": ncs, "align": None}
            later = {8: {"k": "repeat", "b": inner, "cs": [{"k": "MinimumTrials", "n": 4}]},
                     9: {"k": "merge", "bs": [inner], "cs": [], "mode": "repeat", "align": None},
                     10: {"k": "repeat", "b": outer, "cs": [{"k": "MinimumTrials", "n": 4}]}}[it]
            order = [a, later, inner if it != 10 else outer]
            ctx.count("C18.block-histories.nest-constraints")
        built = D.Built()
        desc0 = {"factors": factors}
        for f in factors:
            built.factors[f["id"]] = D.build_factor(desc0, f["id"], built)
        shared = {}
        ctx.count("C18.block-histories")
        for step, e in enumerate(order):
            dsc = {"factors": factors, "block": e}
            fresh = _exh(ctx, json.loads(json.dumps(dsc)))
            try:
                blk = quiet(D.build_block, dsc, e, built, shared)
                n_shared = blk.trials_per_sample()
                exps = O.synth(blk, O.CAP_SOLUTIONS + 1, "IterateSATGen", timeout=40)
                got = ("ok", multiset([D.exp_to_seq(dsc, x)[0] for x in exps])) if len(exps) <= O.CAP_SOLUTIONS else ("toomany",)
            except O.CallTimeout:
                continue
            except Exception as ex:
                got = ("exc", type(ex).__name__)
            ctx.case(("C18b", json.dumps(order, sort_keys=True), step), True,
                     sample={"constructions": [x["k"] for x in order], "shared": ["outer block", "MinimumTrials"]} if len(ctx.samples) < 3 else None)
            if fresh[0] in ("toomany", "timeout") or got[0] == "toomany":
                continue
            if got[0] != fresh[0] or (got[0] == "ok" and got[1] != fresh[1]):
                case = O.Case(ctx, dsc)
                case.regs = set()
                known = "F4" if any(c.get("obj") == "pin" for c in ocs) else None
                report(ctx, "sharing", case, "construction %d (%s) of %s with reused block/MinimumTrials objects: %s; with fresh objects: %s" % (
                    step, e["k"], [x["k"] for x in order],
                    got[0] if got[0] != "ok" else "%d solutions" % sum(got[1].values()),
                    fresh[0] if fresh[0] != "ok" else "%d solutions" % sum(fresh[1].values())), {"order": order}, known)
                break
        if ctx.failures:
            return


def _c18_argument_lists(ctx):
    """Combinators called the way the documentation writes them - relying on the default `constraints` argument, or
    handing the same list object to two calls: the caller's list must stay as it was, and a later construction must
    not inherit constraints from an earlier one."""
    def count(blk):
        exps = O.synth(blk, O.CAP_SOLUTIONS + 1, "IterateSATGen", timeout=40)
        return len(exps)

    def factors():
        return [sp.Factor(n, [n + "1", n + "2"]) for n in ("A", "B", "C")]
    ctx.rules.append("C18 oracle (argument lists): Merge / Repeat / Nest built with the default constraints argument or a "
                     "shared list after an earlier construction whose blocks carry constraints: same solutions as with "
                     "a fresh explicit list; the caller's list is not modified")
    try:
        for kind in ("merge", "repeat", "nest"):
            A, B, C = factors()
            b1 = sp.CrossBlock([A, B, C], [A], [sp.Pin(0, C["C1"])])
            b2 = sp.CrossBlock([A, B, C], [B], [sp.AtMostKInARow(1, C["C1"])])
            shared = []
            if kind == "merge":
                quiet(sp.Merge, [b1, b2])                       # default argument
                quiet(sp.Merge, [b1, b2], shared)               # caller's list
            elif kind == "repeat":
                quiet(sp.Repeat, b1, shared)                    # (Repeat has no default)
            else:
                inner = sp.CrossBlock([sp.Factor("S", ["s1", "s2"])], [], []) if False else None
                S = sp.Factor("S", ["s1", "s2"])
                quiet(sp.Nest, b1, sp.CrossBlock([S], [S], []))
                quiet(sp.Nest, b1, sp.CrossBlock([S], [S], []), shared)
            ctx.count("C18.argument-lists")
            if shared != []:
                case = O.Case(ctx, {"factors": [], "block": {"k": kind}})
                case.regs = set()
                report(ctx, "sharing", case, "%s modified the constraints list it was given (now %d entries)" % (kind, len(shared)), {"kind": kind})
                return
            # a constraint-free construction afterwards, default argument vs explicit fresh list
            A2, B2, C2_ = factors()
            def plain():
                return [sp.CrossBlock([A2, B2, C2_], [A2], []), sp.CrossBlock([A2, B2, C2_], [B2], [])]
            if kind == "merge":
                got, want = count(quiet(sp.Merge, plain())), count(quiet(sp.Merge, plain(), []))
                again = count(quiet(sp.Merge, plain(), shared))
            elif kind == "repeat":
                want = count(quiet(sp.Repeat, plain()[0], []))
                got = again = count(quiet(sp.Repeat, plain()[0], shared))
            else:
                S2 = sp.Factor("S", ["s1", "s2"])
                got = count(quiet(sp.Nest, plain()[0], sp.CrossBlock([S2], [S2], [])))
                want = count(quiet(sp.Nest, plain()[0], sp.CrossBlock([S2], [S2], []), []))
                again = count(quiet(sp.Nest, plain()[0], sp.CrossBlock([S2], [S2], []), shared))
            ctx.case(("C18args", kind), True)
            if got != want or again != want:
                case = O.Case(ctx, {"factors": [], "block": {"k": kind}})
                case.regs = set()
                report(ctx, "sharing", case, "%s built with the default / a reused constraints list after an earlier %s: %d / %d "
                       "solutions; with a fresh explicit list: %d" % (kind, kind, got, again, want), {"kind": kind})
                return
    except O.CallTimeout:
        return


def _ntrials(desc):
    try:
        return D.build(desc).block.trials_per_sample()
    except Exception:
        return None


# ------------------------------------------------------------ C19 histories

def _with_continuous(desc, kind):
    """Build the block of a leaf description with extra continuous factors appended to the design."""
    import random as stdrandom
    built = D.Built()
    for f in sorted(desc["factors"], key=lambda f: f["id"]):
        built.factors[f["id"]] = D.build_factor(desc, f["id"], built)
    b = desc["block"]
    design = [built.factors[i] for i in b["design"]]
    cs = [D.build_constraint(desc, c, built) for c in b["cs"]]
    extra = []
    if kind >= 1:
        extra.append(sp.ContinuousFactor("t1", distribution=sp.CustomDistribution(lambda: stdrandom.random())))
    if kind >= 2:
        extra.append(sp.ContinuousFactor("t2", distribution=sp.UniformDistribution(0, 1)))
        # the running total of t1 within one sequence (the documented `cumulative=True`): its state lives in the
        # distribution object, which every call on the block shares
        extra.append(sp.ContinuousFactor("t3", distribution=sp.CustomDistribution(lambda x: x, [extra[0]], cumulative=True)))
    with D.contextlib.redirect_stdout(D.io.StringIO()):
        blk = sp.CrossBlock(design + extra, [built.factors[i] for i in b["crossing"]], cs, b["rcc"])
    return blk, [e.name for e in extra]


def oracle_c19(ctx, budget_s):
    from .i4_text import _Tmp
    rng = ctx.rng
    ctx.rules.append("C19 oracle: random sequences (length 3-6) of library calls on one block object (synthesize_trials "
                     "with IterateSATGen/RandomGen/CMSGen, print_experiments, tabulate_experiments, "
                     "save_experiments_csv, experiments_to_tuples/_dicts, sample_mismatch_experiment), designs with 0-2 "
                     "continuous factors; after every call the block's design names, continuous factors, constraint "
                     "count and trial count must be unchanged, and a final synthesize_trials must succeed with the "
                     "same columns as the first and Spec-valid discrete sequences")
    g = D.Gen(rng, max_trials=5)
    t_end = ctx.elapsed() + budget_s
    # SMGen keeps its working state in module globals: repeated SMGen calls on one block object (with other strategies
    # in between), in one child process; every result must be as valid as the first
    col, wrd = O._sf(0, ["r", "g"]), O._sf(1, ["r", "g"])
    eq = [0] * 9
    eq[4] = eq[8] = 1
    for ws, crossing in (([2, 1], [0, 2]), ([1, 1], [0, 2]), ([1, 2], [1, 2]), ([1, 1], [0, 1])):
        con = {"id": 2, "name": "f2", "window": {"deps": [0, 1], "width": 1, "stride": 1, "start": None, "kind": "within"},
               "levels": [{"name": "con", "w": ws[0], "table": eq}, {"name": "inc", "w": ws[1], "table": [1 - x for x in eq]}]}
        dsc = {"factors": [col, wrd, con], "block": {"k": "cross", "design": [0, 1, 2], "crossing": crossing, "rcc": True, "cs": []}}
        case = O.Case(ctx, dsc)
        if not case.build():
            continue
        case.regs = OD.regions(dsc, case.geo)
        strategies = ["SMGen", "IterateSATGen", "SMGen", "RandomGen", "SMGen"]
        res = O.synth_sequence([{"desc": dsc, "n": 2, "strategy": st, "key": "b"} for st in strategies], timeout=120)
        ctx.count("C19.smgen-histories")
        if res is None:
            continue
        verdicts = []
        for st, r in zip(strategies, res):
            if r[0] == "ok":
                seqs = exps_to_seqs(ctx, case, r[1], st)
                bad = [v for v in O.lean_valid(ctx, dsc, seqs) if v]
                verdicts.append((st, "invalid:" + ",".join(bad[0]) if bad else "valid"))
            else:
                verdicts.append((st, "exception:" + r[1]))
        sm = [v for st, v in verdicts if st == "SMGen"]
        ctx.case(("C19", "smgen", json.dumps(dsc, sort_keys=True)), True)
        if sm and sm[0] == "valid" and any(v != "valid" for v in sm[1:]):
            report(ctx, "history", case, "repeated SMGen calls on one block: the first call returned valid sequences, later calls "
                   "did not: %s" % verdicts, {"history": strategies})
            return
    ops = ["synth-sat", "synth-random", "synth-cms", "print", "tabulate", "csv", "tuples", "dicts", "mismatch"]
    with _Tmp() as tmp:
        while ctx.elapsed() < t_end:
            desc = O.gen_leaf(g, small=rng.random() < 0.5, want_derived=rng.choice([0, 1]), kinds=["AtMostKInARow", "MinimumTrials"], allow_weights=rng.random() < 0.3)
            ncont = rng.choice([0, 1, 1, 2])
            try:
                blk, cnames = _with_continuous(desc, ncont)
            except Exception:
                continue
            case = O.Case(ctx, desc)
            case.geo = O.lean_geo(ctx, desc)
            case.regs = OD.regions(desc, case.geo)
            if quiet(blk.show_errors):
                continue
            snap = lambda: ([str(f.name) for f in blk.design], [f.name for f in blk.continuous_factors], len(blk.constraints), blk.trials_per_sample())
            s0 = snap()
            hist = [rng.choice(ops) for _ in range(rng.randint(3, 6))]
            if ncont and "print" not in hist and rng.random() < 0.6:
                hist.insert(rng.randrange(len(hist)), "print")
            exps = None
            first_cols = None
            broke = False
            for op in ["synth-sat"] + hist + ["synth-sat", "synth-random" if case.random_ok() else "synth-sat"]:
                try:
                    if op.startswith("synth"):
                        strat = {"synth-sat": "IterateSATGen", "synth-random": "RandomGen", "synth-cms": "CMSGen"}[op]
                        if strat == "RandomGen" and not case.random_ok():
                            continue
                        exps = O.synth(blk, 2, strat)
                        if exps:
                            cols = sorted(exps[0].keys())
                            if first_cols is None:
                                first_cols = cols
                            elif cols != first_cols:
                                report(ctx, "history", case, "after %s a synthesized experiment has columns %s, the first call gave %s" % (hist, cols, first_cols), {"history": hist, "continuous": ncont})
                                broke = True
                            if "t3" in cnames:
                                for e in exps:
                                    run = 0.0
                                    for i, x in enumerate(e["t1"]):
                                        run += x
                                        if abs(e["t3"][i] - run) > 1e-9 * max(1.0, abs(run)):
                                            report(ctx, "history", case, "after %s: the cumulative factor at trial %d is %r, the running total "
                                                   "of its argument in this sequence is %r" % (hist, i, e["t3"][i], run), {"history": hist, "continuous": ncont})
                                            broke = True
                                            break
                                    if broke:
                                        break
                            disc = [{k: v for k, v in e.items() if k not in cnames} for e in exps]
                            seqs = exps_to_seqs(ctx, case, disc, strat)
                            for s, v in zip(seqs, O.lean_valid(ctx, desc, seqs)):
                                if v:
                                    report(ctx, "history", case, "after %s: %s returned an invalid sequence (%s)" % (hist, strat, ",".join(v)),
                                           {"history": hist, "continuous": ncont}, known_for(case.regs, "C19", "sound:" + ("derived" if "derived" in v else ("crossing" if any(x.startswith("crossing") for x in v) else "constraint"))))
                                    broke = True
                                    break
                    elif exps is None or not exps:
                        continue
                    elif op == "print":
                        quiet(sp.print_experiments, blk, exps)
                    elif op == "tabulate":
                        if len(blk.crossings) == 1:
                            quiet(sp.tabulate_experiments, blk, exps)
                    elif op == "csv":
                        for f in D.os.listdir(".") if hasattr(D, "os") else []:
                            pass
                        quiet(sp.save_experiments_csv, blk, exps, "h")
                    elif op == "tuples":
                        sp.experiments_to_tuples(blk, exps)
                    elif op == "dicts":
                        sp.experiments_to_dicts(blk, exps)
                    elif op == "mismatch":
                        if not ({"F26"} & case.regs):
                            quiet(sp.sample_mismatch_experiment, blk, {k: v for k, v in exps[0].items() if k not in cnames})
                except O.CallTimeout:
                    break
                except Exception as e:
                    known = known_for(case.regs, "C19", ("random-exception:" if op == "synth-random" else "sat-exception:") + type(e).__name__)
                    report(ctx, "history", case, "%s raised %s: %s after the calls %s" % (op, type(e).__name__, str(e)[:120], hist),
                           {"history": hist, "continuous": ncont}, known)
                    broke = True
                if snap() != s0:
                    report(ctx, "history", case, "%s changed the block: %s -> %s" % (op, s0, snap()), {"history": hist, "continuous": ncont})
                    broke = True
                if broke:
                    break
            ctx.count("C19.histories")
            ctx.count("C19.continuous%d" % ncont)
            ctx.case(("C19", json.dumps(desc, sort_keys=True), tuple(hist), ncont), True,
                     sample={"design": sample_desc(case), "continuous_factors": ncont, "history": hist} if len(ctx.samples) < 3 else None)
            if ctx.failures:
                return


# ------------------------------------------------------------ C22 continuous

def oracle_c22(ctx, budget_s):
    import math
    import random as stdrandom
    rng = ctx.rng
    ctx.rules.append("C22 oracle: leaf designs plus continuous factors with logging CustomDistributions: an independent "
                     "factor, one depending on a discrete factor and on the first, one reading a ContinuousFactorWindow "
                     "(width 1-3, stride 1-2, start None/0..3) and a ContinuousConstraint; for every returned sequence: "
                     "one value per trial, the constraint holds at every trial, the logged arguments of the last "
                     "sampling pass equal the same trial's values / the window of preceding values with NaN where the "
                     "window is undefined or skipped, and the discrete part is Spec-valid")
    g = D.Gen(rng, max_trials=5)
    t_end = ctx.elapsed() + budget_s
    while ctx.elapsed() < t_end:
        desc = O.gen_leaf(g, small=True, want_derived=rng.choice([0, 1]), kinds=["AtMostKInARow"], allow_weights=False)
        built = D.Built()
        for f in sorted(desc["factors"], key=lambda f: f["id"]):
            built.factors[f["id"]] = D.build_factor(desc, f["id"], built)
        b = desc["block"]
        design = [built.factors[i] for i in b["design"]]
        dep = built.factors[b["design"][0]]
        width, stride = rng.choice([1, 2, 2, 3]), rng.choice([1, 1, 2])
        start = rng.choice([None, None, 0, 1, 2, 3])
        log2, log3 = [], []
        thr = rng.choice([0.0, 0.2, 0.4])
        c1 = sp.ContinuousFactor("c1", distribution=sp.CustomDistribution(lambda: round(stdrandom.random(), 6)))
        def f2(a, x):
            log2.append((a, x))
            return x + 1.0
        # half of the time with the documented keyword spelled out with its default value
        c22_it = ctx.counters.get("C22.iterations", 0)
        ctx.count("C22.iterations")
        explicit_kw = (c22_it % 2 == 0) if c22_it < 6 else rng.random() < 0.5
        c2 = sp.ContinuousFactor("c2", distribution=(sp.CustomDistribution(f2, [dep, c1], cumulative=False) if explicit_kw
                                                     else sp.CustomDistribution(f2, [dep, c1])))
        from sweetpea._internal.primitive import ContinuousFactorWindow
        win = ContinuousFactorWindow([c1], width, stride, start)
        def f3(wv):
            log3.append(dict(wv))
            return 0.0
        c3 = sp.ContinuousFactor("c3", distribution=sp.CustomDistribution(f3, [win]))
        # a cumulative distribution: the running total of c2 within one sequence (restarts with every sequence and
        # every resampling pass)
        c4 = sp.ContinuousFactor("c4", distribution=sp.CustomDistribution(lambda y: y, [c2], cumulative=True))
        from sweetpea._internal.constraint import ContinuousConstraint
        cc = ContinuousConstraint([c1], lambda x: x >= thr)
        # further constraints, in varying order: an upper bound on the dependent factor and a two-argument one
        hi = rng.choice([1.5, 1.7, 1.9])
        cc2 = ContinuousConstraint([c2], lambda y: y <= hi)
        cc3 = ContinuousConstraint([c1, c2], lambda x, y: y - x == 1.0)
        ccs = rng.choice([[cc], [cc, cc2], [cc2, cc], [cc3, cc2, cc], [cc2, cc3, cc]])
        if c22_it < 6:
            ccs = [cc]          # the first designs carry one easy constraint, so that a slow resampling loop cannot hide them
        try:
            with D.contextlib.redirect_stdout(D.io.StringIO()):
                blk = sp.CrossBlock(design + [c1, c2, c3, c4], [built.factors[i] for i in b["crossing"]],
                                    [D.build_constraint(desc, c, built) for c in b["cs"]] + ccs, b["rcc"])
        except Exception:
            continue
        case = O.Case(ctx, desc)
        case.geo = O.lean_geo(ctx, desc)
        case.regs = OD.regions(desc, case.geo)
        strat = rng.choice(["IterateSATGen", "IterateSATGen", "RandomGen"]) if case.random_ok() else "IterateSATGen"
        try:
            exps = O.synth(blk, 3, strat)
        except (Exception, O.CallTimeout) as e:
            if isinstance(e, Exception):
                report(ctx, "exception", case, "synthesize_trials (%s) with continuous factors raised %s: %s" % (strat, type(e).__name__, str(e)[:100]),
                       None, known_for(case.regs, "C22", ("random-exception:" if strat == "RandomGen" else "sat-exception:") + type(e).__name__))
            continue
        n = blk.trials_per_sample()
        ctx.count("C22.designs")
        st = start if start is not None else width - 1       # the documented default, not what the object reports
        for ei, e in enumerate(exps):
            bad = None
            for k in ("c1", "c2", "c3", "c4"):
                if k not in e or len(e[k]) != n:
                    bad = "continuous factor %s has %s values for %d trials" % (k, len(e.get(k, [])), n)
            if not bad and any(not (x >= thr) for x in e["c1"]):
                bad = "ContinuousConstraint (x >= %s) is violated in the returned values %s" % (thr, e["c1"])
            if not bad and cc2 in ccs and any(not (y <= hi) for y in e["c2"]):
                bad = "ContinuousConstraint (y <= %s), one of %d constraints, is violated in the returned values %s" % (hi, len(ccs), e["c2"])
            if not bad:
                run = 0.0
                for i in range(n):
                    run += e["c2"][i]
                    if abs(e["c4"][i] - run) > 1e-9 * max(1.0, abs(run)):
                        bad = "cumulative factor at trial %d of sequence %d is %r, the running total of its argument in this sequence is %r" % (i, ei, e["c4"][i], run)
                        break
            if not bad:
                ctx.count("C22.constraints.%d" % len(ccs))
            if not bad and ei == len(exps) - 1:
                # the last n logged calls belong to the accepted pass of the last experiment
                a2, a3 = log2[-n:], log3[-n:]
                want2 = [(e[dep.name][i], e["c1"][i]) for i in range(n)]
                if a2 != want2:
                    bad = "dependent continuous factor was computed from %s, the trial values are %s" % (a2, want2)
                for i in range(n):
                    if i < st or (stride > 1 and (i - st) % stride != 0):
                        want = {-k: float("nan") for k in range(width)}
                    else:
                        want = {-k: (e["c1"][i - k] if i - k >= 0 else float("nan")) for k in range(width)}
                    gotw = a3[i]
                    same = set(gotw) == set(want) and all((math.isnan(gotw[k]) and math.isnan(want[k])) or gotw[k] == want[k] for k in want)
                    if not same and not bad:
                        bad = "window value at trial %d is %s, expected %s (width %d stride %d start %s)" % (i, gotw, want, width, stride, start)
                if not bad and [x + 1.0 for x in e["c1"]] != e["c2"]:
                    bad = "c2 values %s are not computed from the same trial's c1 values %s" % (e["c2"], e["c1"])
            if bad:
                report(ctx, "continuous", case, bad, {"width": width, "stride": stride, "start": start})
                break
            disc = {k: v for k, v in e.items() if k not in ("c1", "c2", "c3", "c4")}
            s, problems = D.exp_to_seq(desc, disc)
            v = O.lean_valid(ctx, desc, [s])[0]
            if v or problems:
                report(ctx, "sound", case, "discrete part of a sequence with continuous factors is not valid (%s)" % ",".join(v or problems),
                       None, known_for(case.regs, "C22", "sound:" + ("derived" if "derived" in (v or []) else "other")))
                break
        ctx.case(("C22", json.dumps(desc, sort_keys=True), width, stride, start), True,
                 sample={"design": sample_desc(case), "window": {"width": width, "stride": stride, "start": start}, "threshold": thr} if len(ctx.samples) < 3 else None)
        if ctx.failures:
            return
