"""Interface I8: the whole compilation `server.build_cnf(block)` vs `SPModel.Pipeline.buildCnf`.

The extractor reads from a real block only what the numbering and the formulas depend on (layout of the active
design; per crossing: factor indices, allowed combinations, their weights, size / preamble / weight; alignment; and per
constraint its class, level, k, within-block geometry, Derivation index lists), sends it to the Lean model and compares
the final clause list with `build_cnf(block)._vals` *exactly*, clause by clause, in order."""
from itertools import product

from sweetpea._internal import constraint as C
from sweetpea._internal.beforestart import BeforeStart
from sweetpea._internal.cross_block import AlignmentMode
from sweetpea._internal.server import build_cnf
from sweetpea._internal.weight import combination_weight

from . import oracles_design as OD
from .i7_layout import lblock


class Unsupported(Exception):
    pass


def _within(wb):
    return None if wb is None else [wb.num_trials, wb.preamble_size]


def _level(act, c_factor, level):
    f = act.index(c_factor)
    return f, list(c_factor.levels).index(level)


def pinput(blk):
    act = list(blk.act_design)
    lay = lblock(blk)
    crossings = []
    for c in blk.crossings:
        level_lists = [list(f.levels) for f in c]
        combos = [{level.factor: level for level in levels} for levels in product(*level_lists)]
        allowed = [cb for cb in combos if not blk.is_excluded_or_inconsistent_combination(cb)]
        sc = blk.sustain_count(c[0])
        crossings.append({
            "factors": [act.index(f) for f in c],
            "combos": [[list(f.levels).index(cb[f]) for f in c] for cb in allowed],
            "weights": [combination_weight(tuple(cb.values())) * sc for cb in allowed],
            "size": blk.crossing_size(c), "preamble": blk.preamble_size(c), "weight": blk.crossing_weight(c)})
    post = getattr(blk, "alignment", None) == AlignmentMode.POST_PREAMBLE
    cons = []
    for c in blk.constraints:
        if isinstance(c, C.MinimumTrials):
            continue
        if isinstance(c, C.Consistency):
            cons.append({"c": "consistency"})
        elif isinstance(c, C.Cross):
            cons.append({"c": "cross"})
        elif isinstance(c, C.Sustain):
            cons.append({"c": "sustain"})
        elif isinstance(c, (C.Reify, C.ContinuousConstraint)):
            cons.append({"c": "noop"})
        elif isinstance(c, C.Exclude):
            f, l = _level(act, c.factor, c.level)
            cons.append({"c": "exclude", "f": f, "l": l})
        elif isinstance(c, C.Pin):
            f, l = _level(act, c.factor, c.level)
            wb = c.within_block
            s = blk.sustain_count(c.factor) if wb is None else wb.factor_to_sustain_count.get(c.factor, 1)
            cons.append({"c": "pin", "idx": c.index, "f": f, "l": l, "within": _within(wb), "sustain": s})
        elif type(c) in (C.AtMostKInARow, C.AtLeastKInARow, C.ExactlyKInARow, C.ExactlyK):
            f, l = _level(act, c.level.factor, c.level)
            kind = {C.AtMostKInARow: "atmost", C.AtLeastKInARow: "atleast", C.ExactlyKInARow: "exactlyinarow",
                    C.ExactlyK: "exactlyk"}[type(c)]
            cons.append({"c": kind, "k": c.k, "f": f, "l": l, "within": _within(c.within_block)})
        elif isinstance(c, C.Sequential):
            cons.append({"c": "sequential", "f": act.index(c.factor), "preamble": blk.factor_preamble_size(c.factor)})
        elif isinstance(c, C.Derivation):
            deps = [[({"before": x.ready_at} if isinstance(x, BeforeStart) else x) for x in l] for l in c.dependent_idxs]
            cons.append({"c": "derivation", "idx": c.derived_idx, "deps": deps, "f": act.index(c.factor),
                         "start_delta": c.factor.levels[0].window.start_delta})
        else:
            raise Unsupported(type(c).__name__)
    return {"op": "pipeline", "factors": lay["factors"], "trials": lay["trials"], "crossings": crossings,
            "constraints": cons, "post_preamble": bool(post),
            "common_preamble": blk.preamble_size() if post else 0}


def derive_req(blk, lay):
    """Input of `SPModel.Derive.generate` (interface I8d): the derived factors of the active design with one truth
    table per level, obtained by calling the level's own predicate on every window tuple (digit 0 = None)."""
    from sweetpea._internal.primitive import DerivedFactor
    act = list(blk.act_design)
    derived = []
    for f in blk.design:
        if not isinstance(f, DerivedFactor) or f not in act:
            continue
        win = f.levels[0].window
        deps = list(win.factors)
        width = win.width
        bases = [len(df.levels) + 1 for df in deps for _ in range(width)]
        names = [[None] + [l.name for l in df.levels] for df in deps for _ in range(width)]
        size = 1
        for b in bases:
            size *= b
        if size > 20000:
            raise Unsupported("table too large")
        tables = []
        for level in f.levels:
            pred = level.window.predicate
            tab = []
            for key in range(size):
                digits, k = [], key
                for b in reversed(bases):
                    digits.append(k % b)
                    k //= b
                digits.reverse()
                args = [nm[dg] for nm, dg in zip(names, digits)]
                if width != 1:
                    args = [{i - width + 1: args[j * width + i] for i in range(width)} for j in range(len(deps))]
                try:
                    tab.append(bool(pred(*args)))
                except Exception:  # noqa: BLE001  (a predicate that cannot take None where no tuple has it)
                    tab.append(False)
            tables.append(tab)
        derived.append({"fi": act.index(f), "deps": [act.index(df) for df in deps], "width": width,
                        "start_delta": win.start_delta, "tables": tables})
    return {"op": "derive", "factors": lay["factors"], "trials": lay["trials"], "derived": derived}


def compare_derive(d, blk, req):
    """I8d: the Derivation constraints of the block (as the I8 extractor read them) vs `Derive.generate` on the
    predicate tables.  Returns None when equal."""
    dreq = derive_req(blk, req)
    le = d.ask(dreq)
    want = [{"idx": c["idx"], "f": c["f"], "start_delta": c["start_delta"], "deps": c["deps"]}
            for c in req["constraints"] if c["c"] == "derivation"]
    if "ok" not in le:
        return {"interface": "I8d", "lean": str(le)[:300], "python_derivations": len(want)}
    got = le["ok"]["derivations"]
    if got != want:
        i = next((i for i in range(min(len(got), len(want))) if got[i] != want[i]), min(len(got), len(want)))
        return {"interface": "I8d", "first_difference_at_derivation": i, "lean": got[i:i + 1], "python": want[i:i + 1],
                "lean_count": len(got), "python_count": len(want)}
    # messages of block.errors: one per level without a matching tuple, one per tuple without a level
    errs = [e for e in getattr(blk, "errors", ())]
    n_unmatched = sum(len(u) for u in le["ok"]["unmatched"])
    n_uncovered = sum(le["ok"]["uncovered"])
    return None if (n_unmatched, n_uncovered) == (0, 0) or errs else \
        {"interface": "I8d", "lean_unmatched": le["ok"]["unmatched"], "lean_uncovered": le["ok"]["uncovered"],
         "python_errors": errs}


def py_cnf(blk):
    cnf = build_cnf(blk)
    return [[int(v) for v in cl] for cl in cnf._vals]


def _truncated_window(req):
    """known finding F8: a block-scoped constraint whose last window reaches past the last trial (the compiled
    requests then mention variables of trials that do not exist, so the C03 hypotheses cannot hold)"""
    n = req["trials"]
    for c in req["constraints"]:
        w = c.get("within")
        if not w:
            continue
        ln, pre = w
        start = (req["common_preamble"] - pre) if req["post_preamble"] else 0
        end, step = ln, ln - pre
        while step > 0 and start < n - pre:
            if end > n:
                return True
            start += step
            end += step
    return False


def compare(ctx, d, blk):
    """returns None when equal, else a short description of the first difference"""
    req = pinput(blk)
    try:
        dd = compare_derive(d, blk, req)
    except Unsupported:
        dd = None
        ctx.count("I8d.unsupported")
    else:
        ctx.count("I8d.derive")
        ctx.count("I8d.derivations", sum(1 for c in req["constraints"] if c["c"] == "derivation"))
    if dd is not None:
        return req, dd
    try:
        py = {"ok": py_cnf(blk)}
    except Exception as e:  # noqa: BLE001
        py = {"err": type(e).__name__}
    le = d.ask(req)
    if "ok" in le and "ok" in py:
        a, b = le["ok"]["cnf"], py["ok"]
        if a == b:
            # the decidable hypotheses of the C03 theorems, evaluated on this block's backend
            if not (le["ok"]["wf"] and le["ok"]["states_defined"] and le["ok"]["input_ok"]):
                if _truncated_window(req):
                    return req, "F8"
                return req, {"theorem_hypothesis_fails": {k: le["ok"][k] for k in ("wf", "states_defined", "input_ok")}}
            return req, None
        i = next((i for i in range(min(len(a), len(b))) if a[i] != b[i]), min(len(a), len(b)))
        return req, {"first_difference_at_clause": i, "lean": a[i:i + 3], "python": b[i:i + 3],
                     "lean_clauses": len(a), "python_clauses": len(b)}
    if "err" in le and "err" in py and le["err"] == py["err"]:
        return req, None
    return req, {"lean": str(le)[:300], "python": str(py)[:300]}


def corr_pipeline(ctx):
    d = ctx.drv()
    ctx.rules.append("I8: for generated designs (all constraint classes, Repeat/Merge/Nest, complex derived factors, "
                     "weights, exclusions) the clause list of server.build_cnf(block) vs SPModel.Pipeline.buildCnf, "
                     "compared exactly (every clause, in order)")
    from . import i12_oracle as O
    wide = ["Exclude", "Pin", "MinimumTrials", "Sequential", "ExactlyK"] + O.RUN_KINDS

    def cases():
        yield from OD.gen_cases(ctx, 18 if not ctx.big() else 120)
        # beyond the region the design oracles stay in: every constraint kind, longer blocks
        yield from OD.gen_cases(ctx, 10 if not ctx.big() else 90, max_trials=12, corpus=False,
                                gen_fn=lambda g: O.gen_leaf(g, kinds=wide))
    for case in cases():
        blk = case.fresh_block()
        try:
            req, diff = compare(ctx, d, blk)
        except Unsupported as e:
            ctx.count("I8.unsupported:" + str(e))
            continue
        ctx.count("I8.pipeline")
        ctx.case("I8:" + str(hash(str(req))), nontrivial=len(req["constraints"]) > 2,
                 sample={"interface": "I8", "design": OD.sample_desc(case)} if ctx.counters["I8.pipeline"] <= 1 else None)
        for c in req["constraints"]:
            ctx.count("I8.c:" + c["c"])
        if any(c.get("within") for c in req["constraints"]):
            ctx.count("I8.within")
        if req["post_preamble"]:
            ctx.count("I8.post_preamble")
        if diff == "F8":
            ctx.count("known.F8")
            continue
        if isinstance(diff, dict) and "theorem_hypothesis_fails" in diff and "F19" in getattr(case, "regs", ()):
            # known finding F19: a derived factor over a complex derived factor is mis-encoded - its Derivation
            # index lists name variables that are not the dependency's (often not design variables at all), which
            # is exactly what the hypothesis `seqOk` (derivations mention design variables only) rejects
            ctx.count("known.F19")
            continue
        if diff is not None:
            ctx.corr_break("I8.pipeline", req, OD.sample_desc(case), diff)
            if len(ctx.corr_breaks) > 3:
                return
