"""Interface I9f: RandomGen's derived fill-in (`UCSolutionEnumerator._fill_in_derived` with
`DerivedFactor.select_level_for_sample` / `DerivedLevel._trial_arguments`) vs `SPModel.Fill.fillColumn`.

For generated designs with derived factors the harness invents the columns of the basic factors (random levels,
constant within sustained groups), lets the real enumerator fill in every derived factor - over the whole sequence
and again from a later start - and compares every column with the model, entry by entry (or the same exception)."""
from sweetpea._internal.primitive import DerivedFactor
from sweetpea._internal.sampling_strategy.random import UCSolutionEnumerator

import signal

from . import i12_oracle as O
from . import oracles_design as OD
from .designs import quiet
from .i10_implied import _lfactor


def corr_fill(ctx):
    d = ctx.drv()
    rng = ctx.rng
    ctx.rules.append("I9f: UCSolutionEnumerator._fill_in_derived on invented columns of the basic factors (random "
                     "levels, constant within sustained groups) vs SPModel.Fill.fillColumn for every derived factor, "
                     "entry by entry, over the whole sequence and from a later start")

    def has_derived(desc):
        return any(f["window"] is not None for f in desc["factors"])
    for case in OD.gen_cases(ctx, 10 if not ctx.big() else 80, prefer=has_derived):
        blk = case.fresh_block()
        derived = [f for f in blk.design if isinstance(f, DerivedFactor)]
        if not derived:
            continue
        by_name = {f["name"]: f for f in case.desc["factors"]}
        if any(str(f.name) not in by_name for f in blk.design):
            ctx.count("I9f.skip-desugared")
            continue
        # building the enumerator counts the candidate space, which can take minutes for some shapes: wall-clock limit
        old_handler = signal.signal(signal.SIGALRM, O._alarm)
        signal.alarm(5)
        try:
            enum = quiet(UCSolutionEnumerator, blk)
        except O.CallTimeout:
            ctx.count("I9f.enumerator-slow")
            continue
        except Exception as e:  # noqa: BLE001  (open finding F18: the enumerator cannot be built)
            ctx.count("I9f.enumerator-raises:" + type(e).__name__)
            continue
        finally:
            signal.alarm(0)
            signal.signal(signal.SIGALRM, old_handler)
        n = blk.trials_per_sample()
        for _ in range(2):
            run = {}
            for f in blk.design:
                if isinstance(f, DerivedFactor):
                    continue
                sc = blk.sustain_count(f)
                col, cur = [], None
                for i in range(n):
                    if i % sc == 0:
                        cur = rng.choice(list(f.levels))
                    col.append(cur)
                run[f] = col

            def to_col(f, col):
                levels = list(f.levels)
                return [None if x is None else levels.index(x) for x in col]
            cols = {by_name[str(f.name)]["id"]: to_col(f, run[f]) for f in run}
            todo, in_order, have = list(derived), [], set(cols)
            while todo:
                ready = [f for f in todo if set(by_name[str(f.name)]["window"]["deps"]) <= have] or todo[:1]
                in_order += ready
                have |= {by_name[str(f.name)]["id"] for f in ready}
                todo = [f for f in todo if f not in ready]
            for f in in_order:
                fid = by_name[str(f.name)]["id"]
                k = rng.randrange(0, n + 1)
                for start in (0, k):
                    req = {"op": "fill", "design": case.desc, "id": fid, "start": start, "stop": n,
                           "lfactor": _lfactor(blk, f), "cols": [[c, v] for c, v in sorted(cols.items())]}
                    try:
                        out = enum._fill_in_derived(dict(run), [f], start, n)
                        py = {"ok": to_col(f, out[f])[start:]}
                    except AttributeError:
                        # a dependency without a level at a window position (derived over complex derived: F19)
                        ctx.count("I9f.python-attribute-error")
                        py = None
                    except Exception as e:  # noqa: BLE001
                        py = {"err": type(e).__name__}
                    if py is None:
                        break
                    le = d.ask(req)
                    ctx.count("I9f.column")
                    if blk.sustain_count(f) > 1:
                        ctx.count("I9f.sustained")
                    if f.has_complex_window:
                        ctx.count("I9f.complex")
                    if start > 0:
                        ctx.count("I9f.later-start")
                    ctx.case("I9f:" + str(hash(str(req))))
                    if py != le:
                        ctx.corr_break("I9f.fill", {x: req[x] for x in ("id", "start", "stop", "lfactor", "cols")},
                                       OD.sample_desc(case), {"python": str(py)[:400], "lean": str(le)[:400]})
                        if len(ctx.corr_breaks) > 3:
                            return
                        break
                    if start == 0:
                        run[f] = out[f]
                        cols[fid] = py["ok"] if "ok" in py else None
                if py is None or "ok" not in py:
                    break
