"""Property oracles over generated designs (I12): each function runs a budgeted
batch of designs through the real library and judges the outcome with the Lean
reference semantics.  A failure inside a listed known-finding region is
reported as KNOWN-FINDING, anything else as a property failure."""
import itertools
import json

import pycryptosat
import sweetpea as sp
from sweetpea._internal.server import build_cnf
from sweetpea._internal.sampling_strategy.base import Gen as SPGen

from . import designs as D
from . import i12_oracle as O
from .designs import quiet


# ------------------------------------------------------------ known regions

def _fmap(desc):
    return {f["id"]: f for f in desc["factors"]}


def _leaf_blocks(b):
    if b["k"] in ("cross", "multicross"):
        return [b]
    out = []
    for key in ("b", "outer", "inner"):
        if key in b:
            out += _leaf_blocks(b[key])
    for x in b.get("bs", []):
        out += _leaf_blocks(x)
    return out


def _crossings(b):
    out = []
    for l in _leaf_blocks(b):
        out += [l["crossing"]] if l["k"] == "cross" else l["crossings"]
    return out


def _is_complex(fs, fid):
    w = fs[fid]["window"]
    if w is None:
        return False
    if w["width"] > 1 or w["stride"] > 1 or (w["start"] or 0) > 0:
        return True
    return any(_is_complex(fs, d) for d in w["deps"])


def _trans_deps(fs, fid):
    w = fs[fid]["window"]
    if w is None:
        return set()
    out = set(w["deps"])
    for d in w["deps"]:
        out |= _trans_deps(fs, d)
    return out


def _used_by_constraints(desc, fid):
    fs = _fmap(desc)
    for c in D.all_constraints(desc["block"]):
        if "f" in c and (c["f"] == fid or fid in _trans_deps(fs, c["f"])):
            return True
    return False


def regions(desc, geo=None):
    """Known-finding / undefined regions the description lies in."""
    fs = _fmap(desc)
    out = set()
    crossings = _crossings(desc["block"])
    crossed = set(itertools.chain.from_iterable(crossings))
    for cr in crossings:
        for f in cr:
            if fs[f]["window"] is not None and not _is_complex(fs, f):
                deps = _trans_deps(fs, f)
                if any(d not in cr for d in deps):
                    out.add("dep-outside-crossing")           # F10 family (only matters when incomplete)
                if any((fs[d]["window"] is not None or any(l["w"] != 1 for l in fs[d]["levels"])) and d not in cr
                       for d in fs[f]["window"]["deps"]):
                    out.add("F18")                            # RandomGen KeyError (derived or desugared dependency)
    for f in desc["factors"]:
        w = f["window"]
        if w:
            kinds = {_is_complex(fs, d) for d in w["deps"]}
            implied = f["id"] not in crossed and not _used_by_constraints(desc, f["id"]) and \
                not any(f["id"] in _trans_deps(fs, c) for c in crossed)
            if True in kinds and not implied:
                out.add("F19")                                # SAT encoding of windows over complex derived factors
    for c in D.all_constraints(desc["block"]):
        if c["k"] in O.RUN_KINDS and fs[c["f"]]["window"] is not None and fs[c["f"]]["window"]["stride"] > 1:
            out.add("U1")
    # a constraint that mentions a weighted factor outside every crossing: after desugaring it refers to a hidden
    # factor that a user-supplied sample cannot contain (sample_mismatch_experiment raises KeyError)
    for c in D.all_constraints(desc["block"]):
        if "f" in c and fs[c["f"]]["window"] is None and c["f"] not in crossed and any(l["w"] != 1 for l in fs[c["f"]]["levels"]):
            out.add("F26")
    for f in desc["factors"]:
        if f["window"] and any(fs[d]["window"] is None and d not in crossed and any(l["w"] != 1 for l in fs[d]["levels"])
                               for d in _trans_deps(fs, f["id"])):
            out.add("F26")
    # two crossed within-trial derived factors whose sources overlap: RandomGen's bookkeeping of source combinations
    # removes one twice (ValueError)
    for cr in crossings:
        ders = [f for f in cr if fs[f]["window"] is not None and not _is_complex(fs, f)]
        for i, f1 in enumerate(ders):
            for f2 in ders[i + 1:]:
                if _trans_deps(fs, f1) & _trans_deps(fs, f2):
                    out.add("F32")
    # Sequential on a weighted factor outside every crossing: the mismatch checker compares with the hidden desugared
    # factor's levels and reports 'Sequential' for every sample
    for c in D.all_constraints(desc["block"]):
        if c["k"] == "Sequential" and fs[c["f"]]["window"] is None and c["f"] not in crossed and any(l["w"] != 1 for l in fs[c["f"]]["levels"]):
            out.add("F30")
    # POST_PREAMBLE with a complex derived factor outside every crossing: the code starts the crossings after
    # that factor's start without extending the trial count
    def _post(b):
        if b.get("align") == "post preamble":
            return True
        return any(_post(b[k]) for k in ("b", "outer", "inner") if k in b) or any(_post(x) for x in b.get("bs", []))
    if _post(desc["block"]) and any(_is_complex(fs, f["id"]) for f in desc["factors"]):
        # F22 shows where the trial count or the crossing weights computed from each crossing's own preamble differ
        # from those computed from the unified preamble, or where a complex factor outside every crossing moves the
        # unified preamble.  Elsewhere in this region code and documentation agree, and nothing is masked.
        outside = any(_is_complex(fs, f["id"]) and f["id"] not in crossed for f in desc["factors"])
        par = (geo or {}).get("parallel")
        if outside or par is None or par["n"] != geo["n"] or par["weights"] != geo["weights"]:
            out.add("F22")
    # U2: a Nest whose outer block holds a derived factor with a complex window.  The outer block's trials are held for
    # the inner block's length, and so are the window's offsets and its start; `Spec` reads such windows over the
    # factor's own trials (appliesG / matchingG, since round 9).  Only the mismatch checker's verdicts are still
    # withheld there (DESIGN 3.2); everything else is judged.
    def _designs(b):
        if "design" in b:
            return set(b["design"])
        subs = [b[k] for k in ("b", "outer", "inner") if k in b] + list(b.get("bs", []))
        return set().union(*[_designs(x) for x in subs]) if subs else set()
    def _nest_outer_complex(b):
        if b.get("k") == "nest" and any(_is_complex(fs, f) for f in _designs(b["outer"])):
            return True
        subs = [b[k] for k in ("b", "outer", "inner") if k in b] + list(b.get("bs", []))
        return any(_nest_outer_complex(x) for x in subs)
    if _nest_outer_complex(desc["block"]):
        out.add("U2")
    # Exclude on a within-trial derived level whose inputs straddle a crossing: the trial count and the
    # Cross / RandomGen bookkeeping use different notions of "excluded combination"
    for c in D.all_constraints(desc["block"]):
        if c["k"] == "Exclude" and fs[c["f"]]["window"] is not None and not _is_complex(fs, c["f"]):
            grp = _trans_deps(fs, c["f"]) | {c["f"]}
            for cr in crossings:
                if grp & set(cr) and not grp <= set(cr):
                    out.add("F10")
    if geo is not None and "dep-outside-crossing" in out:
        # incomplete crossing whose infeasibility involves factors outside the crossing
        full = []
        for cr, sus in zip(geo["crossings"], geo["sustains"]):
            n = sus
            for f in cr:
                n *= sum(l["w"] for l in fs[f]["levels"])
            full.append(n)
        if geo["error"] == "complete crossing unsatisfiable" or any(s < n for s, n in zip(geo["sizes"], full)):
            out.add("F10")
    return out


# ---------------------------------------------------------------- reporting

def report(ctx, prop_fail, case, what, extra=None, known=None):
    """Record a failure for the property being checked, unless it lies in a known region."""
    replay = {"kind": "design", "check": prop_fail, "desc": case.desc}
    if extra:
        replay.update(extra)
    if known:
        # inside the region of a listed finding: counted; the KNOWN-FINDING line comes from the finding's own witness
        ctx.count("known." + known)
        if len(ctx.notes) < 12:
            ctx.notes.append("in region of %s: %s" % (known, what[:160]))
        return
    ctx.fail(what, replay)


def known_for(regs, prop, kind):
    """Which listed finding (if any) covers a failure of `kind` in these regions.  Kinds carry the failure's
    signature (e.g. 'random-exception:KeyError', 'exhaust:missing-all', 'agree:sat-empty'); a finding only covers
    the signatures it was recorded with, so a different failure in the same region is still reported."""
    table = [
        ("F10", ("exhaust:missing-all", "agree:sat-empty", "random-exception:AssertionError", "trialcount", "count",
                 "mismatch:trial_count", "mismatch:crossing", "distinct", "geometry", "sound:crossing")),
        ("F18", ("random-exception:KeyError",)),
        ("F22", ("exhaust", "agree", "sound", "sat-exception:IndexError", "random-exception:IndexError", "count", "trialcount", "mismatch", "law", "geometry")),
        ("F19", ("exhaust", "agree", "sound:derived", "sat-exception:RuntimeError", "count")),
        ("U1", ("agree", "exhaust", "sound:constraint", "mismatch")),
        ("U2", ("mismatch",)),
        ("F26", ("mismatch:KeyError",)),
        ("F30", ("mismatch:Sequential",)),
    ]
    for r, kinds in table:
        if r in regs and any(kind == k or kind.startswith(k + ":") or kind.startswith(k + "-") or kind.startswith(k) for k in kinds):
            return r
    return None


# ------------------------------------------------------------------ helpers

def exps_to_seqs(ctx, case, exps, who):
    seqs = []
    for e in exps:
        s, problems = D.exp_to_seq(case.desc, e)
        if problems:
            report(ctx, "shape", case, "%s returned a malformed experiment: %s" % (who, "; ".join(problems)),
                   {"experiment": e})
        seqs.append(s)
    return seqs


def multiset(seqs):
    out = {}
    for s in seqs:
        k = D.seq_key(s)
        out[k] = out.get(k, 0) + 1
    return out


def gen_cases(ctx, budget_s, composite=True, max_trials=6, gen_fn=None, corpus=True, prefer=None):
    g = D.Gen(ctx.rng, max_trials=max_trials)
    t_end = ctx.elapsed() + budget_s
    n = 0
    pending = []
    if corpus:
        pending = O.corpus_designs(ctx.big())
        # rotate with the seed so that a budget-limited run does not always see the same prefix
        k = (ctx.seed * 37) % max(len(pending), 1)
        pending = pending[k:] + pending[:k]
        if prefer is not None:
            # the corpus designs the property is about come first (stable order within each part)
            pending = [x for x in pending if prefer(x)] + [x for x in pending if not prefer(x)]
    t_corpus = ctx.elapsed() + budget_s * 0.8        # the deterministic boundary corpus first; random designs get the rest
    while ctx.elapsed() < t_end:
        from_corpus = False
        if pending and ctx.elapsed() < t_corpus:
            desc = pending.pop(0)
            ctx.count("design.corpus")
            from_corpus = True
        else:
            desc = gen_fn(g) if gen_fn else O.gen_design(g, composite=composite)
        case = O.Case(ctx, desc)
        n += 1
        if not case.build():
            ctx.count("design.rejected")
            if from_corpus and case.geo["error"] is None:
                # every design of the boundary corpus is one the documentation allows (and the unchanged library
                # accepts): a constructor that refuses it now has broken whatever property is being checked
                corpus_rejected(ctx, case)
                return
            continue
        ctx.count("design." + desc["block"]["k"])
        case.regs = regions(desc, case.geo)
        for r in case.regs:
            ctx.count("region." + r)
        yield case


def corpus_rejected(ctx, case):
    """A design of the boundary corpus that the constructors refuse although the documentation allows it (Spec.geo
    reports no error; the unchanged library accepts every corpus design): reported as a failure."""
    if case.geo is not None and case.geo.get("error") is None:
        case.regs = set()
        report(ctx, "rejected", case, "a design the documentation allows is rejected at construction: %s" % case.reject)


def has_weights(desc):
    return any(l["w"] != 1 for f in desc["factors"] for l in f["levels"])


def block_kinds(b):
    out = {b["k"]}
    for k in ("b", "outer", "inner"):
        if k in b:
            out |= block_kinds(b[k])
    for x in b.get("bs", []):
        out |= block_kinds(x)
    return out


def sample_desc(case):
    return {"block": case.desc["block"], "factors": [{"id": f["id"], "name": f["name"],
            "levels": [l["name"] + ("*%d" % l["w"] if l["w"] != 1 else "") for l in f["levels"]],
            "window": f["window"]} for f in case.desc["factors"]]}


def nontrivial(case):
    return len(case.desc["factors"]) >= 2 or bool(case.desc["block"].get("cs"))


# --------------------------------------------------------------- the checks

def check_sound(ctx, case, strat, n, prop):
    """Every sequence `strat` returns is valid (C01 / C04); exceptions are C08's business
    but are recorded here as well so that nothing is silently skipped."""
    if strat == "RandomGen" and not case.random_ok():
        ctx.count("skip.random-space")
        return None
    try:
        if strat == "UniGen":
            r = O.synth_isolated(case.desc, n, strat)
            if r[0] == "timeout":
                ctx.count("timeout.UniGen")
                return None
            if r[0] != "ok":
                raise RuntimeError("UniGen child: %r" % (r,))
            exps = r[1]
        else:
            exps = O.synth(case.fresh_block(), n, strat)
    except O.CallTimeout:
        ctx.count("timeout." + strat)
        return None
    except Exception as e:
        kind = ("random-exception:" if strat == "RandomGen" else "sat-exception:") + type(e).__name__
        report(ctx, "exception", case, "%s raised %s: %s" % (strat, type(e).__name__, str(e)[:200]),
               {"strategy": strat}, known_for(case.regs, prop, kind))
        return None
    seqs = exps_to_seqs(ctx, case, exps, strat)
    verdicts = O.lean_valid(ctx, case.desc, seqs)
    for s, v in zip(seqs, verdicts):
        if v:
            comp = "derived" if "derived" in v or "shape" in v else ("crossing" if any(x.startswith("crossing") for x in v) else "constraint")
            report(ctx, "sound", case, "%s returned a sequence that is not valid for the design (%s): %s" % (
                strat, ",".join(v), O.fmt_seq(case.desc, s)), {"strategy": strat, "seq": s},
                known_for(case.regs, prop, "sound:" + comp))
            break
    return seqs


def check_exhaust(ctx, case, strat, prop):
    """Asking for more than exist returns exactly the valid sequences, each as often as it
    has distinct solutions (C02 / C06 / C09)."""
    if strat == "RandomGen" and not case.random_ok():
        ctx.count("skip.random-space")
        return None
    try:
        exps, done = case.exhaust(strat)
    except O.CallTimeout:
        ctx.count("timeout." + strat)
        return None
    except Exception as e:
        kind = ("random-exception:" if strat == "RandomGen" else "sat-exception:") + type(e).__name__
        report(ctx, "exception", case, "%s raised %s: %s" % (strat, type(e).__name__, str(e)[:200]),
               {"strategy": strat}, known_for(case.regs, prop, kind))
        return None
    seqs = exps_to_seqs(ctx, case, exps, strat)
    if not done:
        ctx.count("exhaust.toomany")
        return None
    valid = case.valid_seqs()
    if valid is None:
        ctx.count("exhaust.spec-cap")
        return multiset(seqs)
    want = {D.seq_key(s): O.multiplicity(case.desc, s) for s in valid}
    got = multiset(seqs)
    if want != got:
        missing = [k for k in want if k not in got]
        extra = [k for k in got if k not in want]
        dup = [k for k in got if k in want and got[k] != want[k]]
        what = "%s exhausted: %d distinct sequences returned, %d valid exist; %d valid ones missing, %d invalid returned, %d with wrong multiplicity" % (
            strat, len(got), len(want), len(missing), len(extra), len(dup))
        if missing:
            what += "; e.g. missing " + json.dumps(D.seq_to_exp(case.desc, [[f, list(c)] for f, c in missing[0]]), sort_keys=True)
        sig = "exhaust:extra" if extra or dup else ("exhaust:missing-all" if not got else "exhaust:missing-some")
        report(ctx, "exhaust", case, what, {"strategy": strat}, known_for(case.regs, prop, sig))
    return got


def oracle_c01(ctx, budget_s):
    ctx.rules.append("C01 oracle: generated designs (leaf CrossBlocks with weights, within/transition/window derived "
                     "factors, every constraint class; MultiCrossBlock, Repeat, Merge, Nest compositions) built with "
                     "the real constructors; every sequence returned by IterateSATGen, CMSGen and UniGen is judged "
                     "by SPModel.Spec.valid in the Lean driver; non-trivial = design with >= 2 factors or a constraint")
    for case in gen_cases(ctx, budget_s):
        seqs = check_sound(ctx, case, "IterateSATGen", 6, "C01")
        ctx.count("C01.IterateSATGen")
        if seqs:
            # the model samplers are slower; use them on designs that have solutions
            if ctx.counters.get("C01.CMSGen", 0) < 40 or ctx.big():
                check_sound(ctx, case, "CMSGen", 3, "C01")
                ctx.count("C01.CMSGen")
            if ctx.counters.get("C01.UniGen", 0) < 15 or ctx.big():
                check_sound(ctx, case, "UniGen", 2, "C01")
                ctx.count("C01.UniGen")
        ctx.case(("C01", json.dumps(case.desc, sort_keys=True)), nontrivial(case),
                 sample={"design": sample_desc(case), "returned": len(seqs or [])} if len(ctx.samples) < 3 else None)
        if ctx.failures:
            return


def oracle_c02(ctx, budget_s):
    ctx.rules.append("C02 oracle: for generated designs with at most %d solutions, the exhausted IterateSATGen "
                     "multiset equals Spec.validSeqs (computed in Lean by enumerating every choice of simple-factor "
                     "levels per trial), each sequence as often as it has distinct solutions; designs without "
                     "solutions must yield []" % O.CAP_SOLUTIONS)
    def first(desc):
        # where solution *sets* (not single sequences) go wrong most easily: weights together with a combinator
        # (constraints are rewritten by desugaring and re-scoped by the combinator)
        # ... and weights under a window with an explicit start (desugaring rebuilds the window)
        explicit = any(f["window"] is not None and f["window"].get("start") is not None for f in desc["factors"])
        return has_weights(desc) and (explicit or bool(block_kinds(desc["block"]) & {"repeat", "nest", "merge"}))
    for case in gen_cases(ctx, budget_s, prefer=first):
        got = check_exhaust(ctx, case, "IterateSATGen", "C02")
        ctx.count("C02.exhaust" + (".empty" if got == {} else ""))
        ctx.case(("C02", json.dumps(case.desc, sort_keys=True)), nontrivial(case) and got is not None,
                 sample={"design": sample_desc(case), "solutions": None if got is None else sum(got.values())} if len(ctx.samples) < 3 else None)
        if ctx.failures:
            return


def oracle_c04(ctx, budget_s):
    ctx.rules.append("C04 oracle: as C01, for RandomGen (default acceptable error 0)")
    for case in gen_cases(ctx, budget_s):
        if "F18" in case.regs:
            ctx.count("skip.F18")
        seqs = check_sound(ctx, case, "RandomGen", 6, "C04")
        ctx.count("C04.RandomGen")
        if "F22" in case.regs and case.random_ok():
            # inside the region of the open finding F22 the reference semantics cannot judge; there RandomGen must at
            # least agree with the library's own checker (both read the alignment-aware windows)
            try:
                exps = O.synth(case.fresh_block(), 4, "RandomGen", timeout=20)
            except (Exception, O.CallTimeout):
                exps = []
            blk = case.built.block
            for e in exps:
                ctx.count("C04.self-consistency")
                try:
                    mm = quiet(sp.sample_mismatch_experiment, blk, {k: list(v) for k, v in e.items()})
                except Exception:
                    mm = {}
                if mm.get("crossings") or mm.get("constraints"):
                    report(ctx, "sound", case, "RandomGen returned a sequence the library's own mismatch checker rejects (%s): %s" % (
                        mm, json.dumps(e)[:300]), {"strategy": "RandomGen"}, None)
                    break
        ctx.case(("C04", json.dumps(case.desc, sort_keys=True)), nontrivial(case),
                 sample={"design": sample_desc(case), "returned": len(seqs or [])} if len(ctx.samples) < 3 else None)
        if ctx.failures:
            return


def oracle_c06(ctx, budget_s):
    ctx.rules.append("C06 oracle: exhausted RandomGen multiset = Spec.validSeqs; for designs RandomGen samples "
                     "without rejection (no complex windows/constraints, one crossing) the reported "
                     "solution_count metric (combined over preamble, rounds and leftover) equals the number of solutions")
    def first(desc):
        # the bookkeeping of excluded levels is where counts go wrong: designs with Excludes first
        if sum(1 for c in D.all_constraints(desc["block"]) if c["k"] == "Exclude") >= 1:
            return True
        # ... and so is the counting of source completions: a crossed within-trial factor whose sources lie outside the
        # crossing, stretched by MinimumTrials or repeated (crossing weight above 1, leftover rounds)
        fs = _fmap(desc)
        dep_out = any(fs[f]["window"] is not None and not _is_complex(fs, f) and any(d not in cr for d in _trans_deps(fs, f))
                      for cr in _crossings(desc["block"]) for f in cr)
        return dep_out and (any(c["k"] == "MinimumTrials" for c in D.all_constraints(desc["block"])) or
                            "repeat" in block_kinds(desc["block"]))
    for case in gen_cases(ctx, budget_s, max_trials=5, prefer=first):
        got = check_exhaust(ctx, case, "RandomGen", "C06")
        ctx.count("C06.exhaust" + (".empty" if got == {} else ""))
        if got is not None:
            _check_reported_count(ctx, case, got)
        ctx.case(("C06", json.dumps(case.desc, sort_keys=True)), nontrivial(case) and got is not None,
                 sample={"design": sample_desc(case), "solutions": None if got is None else sum(got.values())} if len(ctx.samples) < 3 else None)
        if ctx.failures:
            return


def _check_reported_count(ctx, case, got):
    from sweetpea._internal.sampling_strategy.random import UCSolutionEnumerator
    blk = case.fresh_block()
    # "needs no rejection step": one crossing, no factor with a complex window, and only constraints RandomGen
    # satisfies by construction (MinimumTrials, Exclude).  (The block's own flag complex_factors_or_constraints is
    # always True - Cross and Consistency count as complex - so it cannot be used here.)
    user = [c["k"] for c in D.all_constraints(case.desc["block"])]
    fs = _fmap(case.desc)
    crossed = set(case.desc["block"].get("crossing", []))
    used_as_source = {d for f in case.desc["factors"] if f["window"] for d in f["window"]["deps"]}
    for c in D.all_constraints(case.desc["block"]):
        # an Exclude on a derived level, or on an uncrossed factor that a derived factor reads, is enforced by
        # rejection (the enumerator does not remove it from the source combinations): the clause does not apply
        if c["k"] == "Exclude" and (fs[c["f"]]["window"] is not None or (c["f"] not in crossed and c["f"] in used_as_source)):
            return
    if case.desc["block"]["k"] != "cross" or any(k not in ("MinimumTrials", "Exclude") for k in user) or \
            any(f.has_complex_window for f in blk.design) or len(blk.crossings) != 1 or \
            blk.errors - {e for e in blk.errors if e.startswith("WARNING")}:
        return
    try:
        en = quiet(UCSolutionEnumerator, blk)
    except Exception:
        return
    n = blk.trials_per_sample()
    rounds = (n - en._preamble_size) // en.crossing_size
    total = en.preamble_solution_count() * pow(en.solution_count(), rounds) * en.leftover_solution_count()
    ctx.count("C06.count-checked")
    if total != sum(got.values()):
        report(ctx, "count", case, "RandomGen reports %d solutions (preamble x rounds x leftover) but %d exist" % (
            total, sum(got.values())), None, known_for(case.regs, "C06", "count"))


def oracle_c07(ctx, budget_s):
    ctx.rules.append("C07 oracle: exhausted IterateSATGen set = exhausted RandomGen set (by level names), with no "
                     "reference to the Spec; only designs with at most %d solutions" % O.CAP_SOLUTIONS)
    for case in gen_cases(ctx, budget_s, max_trials=5):
        if not case.random_ok():
            ctx.count("skip.random-space")
            continue
        res = []
        for strat in ("IterateSATGen", "RandomGen"):
            try:
                res.append(case.exhaust(strat))
            except O.CallTimeout:
                ctx.count("timeout." + strat)
                res = None
                break
            except Exception as e:
                report(ctx, "exception", case, "%s raised %s: %s" % (strat, type(e).__name__, str(e)[:200]), {"strategy": strat},
                       known_for(case.regs, "C07", ("random-exception:" if strat == "RandomGen" else "sat-exception:") + type(e).__name__))
                res = None
                break
        if res is None:
            if ctx.failures:
                return
            continue
        (a, da), (b, db) = res
        ctx.count("C07.compared" if da and db else "C07.toomany")
        if da and db:
            sa = set(multiset(exps_to_seqs(ctx, case, a, "IterateSATGen")))
            sb = set(multiset(exps_to_seqs(ctx, case, b, "RandomGen")))
            if sa != sb:
                ex = (sa - sb) or (sb - sa)
                k = next(iter(ex))
                report(ctx, "agree", case, "IterateSATGen can return %d sequences, RandomGen %d; e.g. only %s returns %s" % (
                    len(sa), len(sb), "IterateSATGen" if k in sa else "RandomGen",
                    json.dumps(D.seq_to_exp(case.desc, [[f, list(c)] for f, c in k]), sort_keys=True)),
                    None, known_for(case.regs, "C07", "agree:sat-empty" if not sa else ("agree:sat-missing" if not (sa - sb) else "agree:random-missing")))
        ctx.case(("C07", json.dumps(case.desc, sort_keys=True)), nontrivial(case) and da and db,
                 sample={"design": sample_desc(case), "solutions": len(a)} if len(ctx.samples) < 3 else None)
        if ctx.failures:
            return


def oracle_c08(ctx, budget_s):
    ctx.rules.append("C08 oracle: every accepted generated design is run through IterateSATGen, RandomGen, CMSGen "
                     "and UniGen; any exception escaping synthesize_trials is a failure")
    seen = 0
    for case in gen_cases(ctx, budget_s):
        seen += 1
        for strat, n in (("IterateSATGen", 3), ("RandomGen", 3), ("CMSGen", 2), ("UniGen", 1)):
            # UniGen runs in a child process (slow to start): in the quick tier it is spread thinly over the designs
            # so that the in-process strategies reach the whole boundary corpus
            if strat == "UniGen" and not ctx.big() and (ctx.counters.get("C08.UniGen", 0) >= 25 or
                                                        (seen > 4 and seen % 12 != 0)):
                continue
            if strat == "RandomGen" and not case.random_ok():
                ctx.count("skip.random-space")
                continue
            try:
                if strat == "UniGen":
                    r = O.synth_isolated(case.desc, n, strat)
                    if r[0] == "exc":
                        raise RuntimeError("%s: %s" % (r[1], r[2]))
                    if r[0] == "died":
                        raise RuntimeError("interpreter terminated with status %s" % (r[1],))
                    if r[0] == "timeout":
                        ctx.count("timeout.UniGen")
                else:
                    O.synth(case.fresh_block(), n, strat)
            except O.CallTimeout:
                ctx.count("timeout." + strat)
            except Exception as e:
                kind = ("random-exception:" if strat == "RandomGen" else "sat-exception:") + type(e).__name__
                report(ctx, "exception", case, "%s raised %s: %s" % (strat, type(e).__name__, str(e)[:200]),
                       {"strategy": strat}, known_for(case.regs, "C08", kind))
            ctx.count("C08." + strat)
        ctx.case(("C08", json.dumps(case.desc, sort_keys=True)), nontrivial(case),
                 sample={"design": sample_desc(case)} if len(ctx.samples) < 3 else None)
        if ctx.failures:
            return


def oracle_c09(ctx, budget_s):
    ctx.rules.append("C09 oracle: for request sizes 0, 1, available-1, available, available+5: IterateSATGen, "
                     "RandomGen and IterateGen return min(requested, available) sequences, pairwise distinct as "
                     "solutions (a printed sequence repeats at most as often as the product of the weights of its "
                     "uncrossed weighted levels)")
    def first(desc):
        # the shapes where the number of available solutions is easy to get wrong: weights in a multi-crossing block,
        # exclusions together with a preamble
        ks = block_kinds(desc["block"])
        has_excl = any(c["k"] == "Exclude" for c in D.all_constraints(desc["block"]))
        return ("multicross" in ks and has_weights(desc)) or (has_excl and any(f["window"] for f in desc["factors"])) or \
            ("nest" in ks and any(c["k"] == "MinimumTrials" for c in desc["block"].get("cs", [])))
    for case in gen_cases(ctx, budget_s, max_trials=5, prefer=first):
        valid = case.valid_seqs()
        if valid is None:
            continue
        mult = {D.seq_key(s): O.multiplicity(case.desc, s) for s in valid}
        avail = sum(mult.values())
        if avail > 120:
            continue
        for strat in ("IterateSATGen", "RandomGen", sp.IterateGen):
            name = strat if isinstance(strat, str) else "IterateGen"
            for req in sorted({0, 1, max(avail - 1, 0), avail, avail + 5}):
                if name != "IterateSATGen" and not case.random_ok():
                    break
                try:
                    exps = O.synth(case.fresh_block(), req, strat)
                except O.CallTimeout:
                    break
                except Exception as e:
                    # IterateGen hands the design to either back end: an exception it raises carries the signature of
                    # the one that ran
                    kinds = {"IterateSATGen": ["sat-exception:"], "RandomGen": ["random-exception:"],
                             "IterateGen": ["sat-exception:", "random-exception:"]}[name]
                    known = next((k for k in (known_for(case.regs, "C09", pre + type(e).__name__) for pre in kinds) if k), None)
                    report(ctx, "exception", case, "%s raised %s" % (name, type(e).__name__), None, known)
                    break
                ctx.count("C09." + name)
                got = multiset(exps_to_seqs(ctx, case, exps, name))
                if len(exps) != min(req, avail):
                    report(ctx, "count", case, "%s asked for %d of %d available returned %d" % (name, req, avail, len(exps)),
                           {"strategy": name, "requested": req},
                           known_for(case.regs, "C09", "exhaust:missing-all" if not exps else "count:short"))
                    break
                bad = [k for k, n in got.items() if n > mult.get(k, 0)]
                if bad:
                    report(ctx, "distinct", case, "%s asked for %d returned the same solution twice (or an invalid one)" % (name, req),
                           {"strategy": name, "requested": req}, known_for(case.regs, "C09", "exhaust"))
                    break
        ctx.case(("C09", json.dumps(case.desc, sort_keys=True)), avail > 1,
                 sample={"design": sample_desc(case), "available": avail} if len(ctx.samples) < 3 else None)
        if ctx.failures:
            return


def oracle_c16(ctx, budget_s):
    ctx.rules.append("C16 oracle: block.trials_per_sample() equals the trial count Spec.geo computes from the "
                     "documented rules (crossing size with weights and exclusions, preamble, MinimumTrials, maximum "
                     "over crossings, Repeat/Nest multiplication), and every sequence of every strategy has that length; "
                     "per crossing: factors, size, weight, sustain count and preamble of the block equal Spec.geo's")
    for case in gen_cases(ctx, budget_s):
        blk = case.built.block
        n = blk.trials_per_sample()
        ctx.count("C16.count")
        if case.geo["error"] is None and n != case.geo["n"]:
            report(ctx, "trialcount", case, "block reports %d trials, the documented arithmetic gives %d" % (n, case.geo["n"]),
                   None, known_for(case.regs, "C16", "trialcount"))
        if case.geo["error"] is None:
            # the rest of the block's geometry, crossing by crossing, against the documented arithmetic
            names = {f["id"]: f["name"] for f in case.desc["factors"]}
            try:
                py = {"crossings": [[str(f.name) for f in c] for c in blk.crossings],
                      "sizes": [blk.crossing_size(c) for c in blk.crossings],
                      "weights": list(blk.crossing_weights),
                      "sustains": [blk.crossing_sustain_count(c) for c in blk.crossings],
                      "preambles": [blk.preamble_size(c) for c in blk.crossings]}
            except Exception as e:
                py = {"error": type(e).__name__}
            le = {"crossings": [[names[i] for i in c] for c in case.geo["crossings"]], "sizes": case.geo["sizes"],
                  "weights": case.geo["weights"], "sustains": case.geo["sustains"], "preambles": case.geo["preambles"]}
            ctx.count("C16.geometry")
            bad = [k for k in le if py.get(k) != le[k]]
            if bad:
                report(ctx, "geometry", case, "block geometry differs from the documented arithmetic in %s: block %s, documented %s" % (
                    bad, {k: py.get(k, py.get("error")) for k in bad}, {k: le[k] for k in bad}),
                    None, known_for(case.regs, "C16", "geometry"))
        for strat in ("IterateSATGen", "RandomGen", "CMSGen"):
            if strat == "RandomGen" and not case.random_ok():
                continue
            try:
                exps = O.synth(case.fresh_block(), 2, strat)
            except (Exception, O.CallTimeout):
                continue          # C08's business
            for e in exps:
                ctx.count("C16.length")
                bad = [k for k, v in e.items() if len(v) != n]
                if bad:
                    report(ctx, "length", case, "%s returned %d entries for factor %s, trial count is %d" % (
                        strat, len(e[bad[0]]), bad[0], n), {"strategy": strat})
        ctx.case(("C16", json.dumps(case.desc, sort_keys=True)), nontrivial(case),
                 sample={"design": sample_desc(case), "trials": n} if len(ctx.samples) < 3 else None)
        if ctx.failures:
            return


def perturb(rng, desc, seq):
    """Systematic invalid-ish variants of a sequence: change one cell, swap two trials, drop/duplicate the last trial."""
    fs = _fmap(desc)
    out = []
    simple = [(i, fid) for i, (fid, col) in enumerate(seq) if fs[fid]["window"] is None]
    if simple:
        i, fid = rng.choice(simple)
        col = list(seq[i][1])
        t = rng.randrange(len(col))
        nl = len(fs[fid]["levels"])
        col[t] = (col[t] + 1) % nl if col[t] is not None else 0
        s2 = [[f, list(c)] for f, c in seq]
        s2[i][1] = col
        out.append(s2)
    n = len(seq[0][1]) if seq else 0
    if n >= 2:
        a, b = rng.sample(range(n), 2)
        s3 = [[f, list(c)] for f, c in seq]
        for row in s3:
            row[1][a], row[1][b] = row[1][b], row[1][a]
        out.append(s3)
    return out


def oracle_c04_latin(ctx, budget_s, prop="C04", strategies=("RandomGen",)):
    """The same for RandomGen (which enforces LatinSquare by rejection), plus LatinSquare over two uncrossed factors
    beside a crossed third one, the smaller factor listed first, also with a last run that is cut short."""
    oracle_c01_latin(ctx, budget_s, strats=strategies, prop=prop)
    if ctx.failures:
        return
    for shape, extra in (((2, 3), 0), ((3, 2), 0), ((2, 4), 0), ((2, 2), 1), ((2, 3), 2)):
        for strat in strategies:
            fs = [sp.Factor("F%d" % i, ["l%d_%d" % (i, j) for j in range(n)]) for i, n in enumerate(shape)]
            other = sp.Factor("G", ["g1", "g2"])
            N = max(shape)
            total = 2 * N + extra          # extra > 0: the last run of N trials is cut short
            try:
                blk = quiet(sp.CrossBlock, fs + [other], [other], [sp.LatinSquare(fs), sp.MinimumTrials(total)])
                exps = O.synth(blk, 6, strat, timeout=30)
            except O.CallTimeout:
                continue
            except Exception as e:
                ctx.fail("%s: %s raised %s for a LatinSquare over uncrossed factors with level counts %s, %d trials" % (
                    prop, strat, type(e).__name__, shape, total), {"kind": "latin-uncrossed", "shape": list(shape), "prop": prop})
                return
            ctx.count(prop + ".latin-uncrossed")
            ctx.case((prop + "latin-uncrossed", shape, extra, strat), True)
            for e in exps:
                T = len(e["F0"])
                for s0 in range(0, T - T % N, N):
                    for i, n in enumerate(shape):
                        if len(set(e["F%d" % i][s0:s0 + N])) != n:
                            ctx.fail("%s: LatinSquare over uncrossed factors with level counts %s (%s): trials %d..%d do not show "
                                     "every level of F%d in %s" % (prop, shape, strat, s0, s0 + N - 1, i, json.dumps(e)[:300]),
                                     {"kind": "latin-uncrossed", "shape": list(shape), "prop": prop})
                            return


def oracle_c08_latin(ctx, budget_s):
    """No strategy may raise on LatinSquare designs, whole or partial last run."""
    oracle_c04_latin(ctx, budget_s, prop="C08", strategies=("RandomGen", "IterateSATGen"))


def oracle_c01_latin(ctx, budget_s, strats=("IterateSATGen", "CMSGen"), prop="C01"):
    """LatinSquare as documented (constraints.rst): with N the largest level count, every aligned run of N trials
    shows every level of every listed factor, and successive runs use distinct combinations until all are exhausted -
    so with prod(levels) trials every combination occurs exactly once."""
    ctx.rules.append("C01 oracle (LatinSquare): CrossBlock(fs, [] or fs, [LatinSquare(fs), MinimumTrials(prod levels)]) for "
                     "2-3 factors with 2-3 levels, IterateSATGen and CMSGen: every aligned N-trial run contains every level "
                     "of every factor, all prod(levels) combinations occur exactly once")
    shapes = [(2, 2, 3), (2, 3), (3, 2, 2), (3, 3), (2, 3, 2)] + ([(2, 2), (3, 2), (2, 3, 3), (2, 2, 2)] if ctx.big() else [])
    t_end = ctx.elapsed() + min(budget_s, 25 if not ctx.big() else 120)
    for shape in shapes:
        for crossed in (False, True):
            for strat in strats:
                if ctx.elapsed() > t_end:
                    return
                fs = [sp.Factor("F%d" % i, ["l%d_%d" % (i, j) for j in range(n)]) for i, n in enumerate(shape)]
                total = 1
                for n in shape:
                    total *= n
                N = max(shape)
                try:
                    blk = quiet(sp.CrossBlock, fs, fs if crossed else [], [sp.LatinSquare(fs), sp.MinimumTrials(total)])
                    exps = O.synth(blk, 4, strat, timeout=30)
                except O.CallTimeout:
                    continue
                except Exception as e:
                    ctx.fail("%s: %s raised %s for a LatinSquare over level counts %s" % (prop, strat, type(e).__name__, shape),
                             {"kind": "latin", "shape": list(shape), "crossed": crossed, "strategy": strat})
                    return
                ctx.count(prop + ".latin")
                ctx.case(("C01latin", shape, crossed, strat), True)
                for e in exps:
                    T = len(e["F0"])
                    combos = [tuple(e["F%d" % i][t] for i in range(len(shape))) for t in range(T)]
                    bad = None
                    if T != total:
                        bad = "%d trials for MinimumTrials(%d)" % (T, total)
                    elif len(set(combos)) != total:
                        bad = "only %d distinct combinations in %d trials" % (len(set(combos)), total)
                    else:
                        for s0 in range(0, T, N):
                            for i, n in enumerate(shape):
                                if len(set(e["F%d" % i][s0:s0 + N])) != n:
                                    bad = "trials %d..%d do not show every level of F%d" % (s0, s0 + N - 1, i)
                    if bad:
                        ctx.fail("%s: LatinSquare over level counts %s (%s, crossing %s): %s in %s" % (
                            prop, shape, strat, "given" if crossed else "empty", bad, json.dumps(e)[:300]),
                            {"kind": "latin", "shape": list(shape), "crossed": crossed, "strategy": strat})
                        return


def _c17_self_consistency(ctx):
    """Designs outside the region where the reference semantics is defined (Nest whose outer block has a preamble):
    whatever IterateSATGen returns must at least be accepted by the mismatch checker (the encoder and the checker are
    two implementations of the same constraints)."""
    col, siz = O._sf(0, ["r", "g"]), O._sf(10, ["s1", "s2"])
    designs = []
    for width in (2, 3):
        size = 3 ** width
        same = [1 if (k // 3 ** (width - 1)) == (k % 3) and k % 3 != 0 else 0 for k in range(size)]
        dv = {"id": 1, "name": "f1", "window": {"deps": [0], "width": width, "stride": 1, "start": None, "kind": "window" if width > 2 else "transition"},
              "levels": [{"name": "same", "w": 1, "table": same}, {"name": "diff", "w": 1, "table": [1 - x for x in same], "else": True}]}
        for inner_levels in (2, 3):
            si = O._sf(10, ["s1", "s2", "s3"][:inner_levels])
            designs.append({"factors": [col, dv, si], "block": {"k": "nest", "cs": [], "align": "post preamble",
                            "outer": {"k": "cross", "design": [0, 1], "crossing": [0, 1], "rcc": True, "cs": []},
                            "inner": {"k": "cross", "design": [10], "crossing": [10], "rcc": True, "cs": []}}})
    for desc in designs:
        case = O.Case(ctx, desc)
        if not case.build():
            ctx.count("C17.self.rejected")
            continue
        case.regs = regions(desc, case.geo)
        try:
            exps = O.synth(case.fresh_block(), 4, "IterateSATGen", timeout=30)
        except (Exception, O.CallTimeout):
            continue
        blk = case.built.block
        for e in exps:
            ctx.count("C17.self")
            try:
                mm = quiet(sp.sample_mismatch_experiment, blk, {k: list(v) for k, v in e.items()})
            except Exception as ex:
                mm = {"exception": type(ex).__name__}
            if mm != {}:
                report(ctx, "mismatch", case, "the mismatch checker says %s for a sequence IterateSATGen returned for a Nest "
                       "with an outer preamble: %s" % (mm, json.dumps(e)[:300]), None, None)
                return


def oracle_c17(ctx, budget_s):
    _c17_self_consistency(ctx)
    if ctx.failures:
        return
    ctx.rules.append("C17 oracle: sample_mismatch_experiment(block, s) == {} iff Spec.valid, on every valid sequence "
                     "(from Spec.validSeqs) and on perturbed ones (one cell changed with derived cells left as they "
                     "were; two trials swapped) that still give one level name per applicable trial")
    for case in gen_cases(ctx, budget_s, max_trials=5):
        valid = case.valid_seqs()
        if not valid:
            continue
        blk = case.built.block
        # metamorphic twin: the same design with non-string level names (0, 1, 2 / 0.0, 1.0 / False, True) on the
        # simple factors; renaming levels must not change any verdict
        twin_desc = twin_blk = None
        if not any(l["w"] != 1 for f in case.desc["factors"] for l in f["levels"]):
            twin_desc = json.loads(json.dumps(case.desc))
            styles = [lambda i: i, lambda i: float(i), lambda i: bool(i)]
            for k, f in enumerate(twin_desc["factors"]):
                if f["window"] is None:
                    st = styles[(k + ctx.seed) % 3] if len(f["levels"]) == 2 else styles[(k + ctx.seed) % 2]
                    for i, l in enumerate(f["levels"]):
                        l["name"] = st(i)
            try:
                twin_blk = D.build(twin_desc).block
            except Exception:
                twin_desc = twin_blk = None
        cands = []
        for s in valid[:6]:
            cands.append(s)
            cands += perturb(ctx.rng, case.desc, s)
        verdicts = O.lean_valid(ctx, case.desc, cands)
        for s, v in zip(cands, verdicts):
            if "shape" in v:
                continue           # not a well-formed candidate (a level where none applies)
            try:
                mm = quiet(sp.sample_mismatch_experiment, blk, D.seq_to_exp(case.desc, s))
            except Exception as e:
                mm = {"exception": type(e).__name__}
            ctx.count("C17.valid" if not v else "C17.invalid")
            if (mm == {}) != (not v):
                sig = "mismatch:" + ("KeyError" if mm.get("exception") == "KeyError" else ("Sequential" if mm == {"constraints": ["Sequential"]} and not v else "trial_count" if "trial_count" in mm else
                                     ("crossing" if ("crossings" in mm or any(x.startswith("crossing") for x in v)) else "other")))
                report(ctx, "mismatch", case, "mismatch checker says %s, reference says %s, for %s" % (
                    mm or "{}", v or "valid", O.fmt_seq(case.desc, s)), {"seq": s},
                    known_for(case.regs, "C17", sig))
                break
            if twin_blk is not None:
                try:
                    mm2 = quiet(sp.sample_mismatch_experiment, twin_blk, D.seq_to_exp(twin_desc, s))
                except Exception as e:
                    mm2 = {"exception": type(e).__name__}
                ctx.count("C17.twin")
                if (mm2 == {}) != (not v):
                    report(ctx, "mismatch", case, "with the simple levels renamed to %s the mismatch checker says %s, the "
                           "reference says %s, for %s" % ([[l["name"] for l in f["levels"]] for f in twin_desc["factors"] if f["window"] is None],
                                                          mm2 or "{}", v or "valid", O.fmt_seq(case.desc, s)), {"seq": s, "twin": True},
                           known_for(case.regs, "C17", "mismatch:twin"))
                    break
        ctx.case(("C17", json.dumps(case.desc, sort_keys=True)), True,
                 sample={"design": sample_desc(case), "candidates": len(cands)} if len(ctx.samples) < 3 else None)
        if ctx.failures:
            return


def oracle_c03(ctx, budget_s):
    ctx.rules.append("C03 oracle: all models of build_cnf(block) are enumerated with pycryptosat (designs with at "
                     "most %d models); models that decode to the same sequence must be identical, i.e. one model per "
                     "solution, also after projection on the sampling set 1..variables_per_sample" % (4 * O.CAP_SOLUTIONS))
    for case in gen_cases(ctx, budget_s, max_trials=5):
        blk = case.fresh_block()
        if blk.errors - {e for e in blk.errors if e.startswith("WARNING")}:
            continue
        try:
            cnf = quiet(build_cnf, blk)
        except Exception as e:
            report(ctx, "exception", case, "build_cnf raised %s" % type(e).__name__, None,
                   known_for(case.regs, "C03", "sat-exception:" + type(e).__name__))
            continue
        clauses = [[int(v) for v in cl] for cl in cnf._vals]
        support = blk.variables_per_sample()
        top = max([support] + [abs(l) for cl in clauses for l in cl])
        s = pycryptosat.Solver()
        for cl in clauses:
            s.add_clause(cl)
        s.add_clause([top, -top])
        seen = {}
        n = 0
        while n <= 4 * O.CAP_SOLUTIONS:
            sat, sol = s.solve()
            if not sat:
                break
            n += 1
            proj = tuple(sol[1:support + 1])
            full = tuple(sol[1:top + 1])
            if proj in seen and seen[proj] != full:
                report(ctx, "unique", case, "two different models of the compiled formula agree on the %d trial "
                       "variables (an auxiliary variable is not determined)" % support, None)
                break
            seen[proj] = full
            s.add_clause([(-v if sol[v] else v) for v in range(1, top + 1)])
        ctx.count("C03.models", n)
        ctx.case(("C03", json.dumps(case.desc, sort_keys=True)), n > 1,
                 sample={"design": sample_desc(case), "models": n, "variables": top, "support": support} if len(ctx.samples) < 3 else None)
        if ctx.failures:
            return


def replay_design(ctx, r):
    """Re-run the recorded check on the recorded design."""
    if r.get("kind") == "latin":
        if r.get("strategy") == "RandomGen":
            oracle_c04_latin(ctx, 60)
        else:
            oracle_c01_latin(ctx, 60)
        return
    if r.get("kind") == "reuse-probe":
        from . import oracles_design2 as OD2
        OD2.reuse_probe(ctx, r.get("prop", "C24"))
        return
    if r.get("kind") == "latin-uncrossed":
        if r.get("prop") == "C08":
            oracle_c08_latin(ctx, 60)
        else:
            oracle_c04_latin(ctx, 60)
        return
    case = O.Case(ctx, r["desc"])
    if not case.build():
        print("design is rejected now:", case.reject)
        if r.get("check") == "rejected" and case.geo["error"] is None:
            ctx.fail("a design the documentation allows is rejected at construction: %s" % case.reject, r)
        return
    case.regs = set()
    chk = r.get("check")
    strat = r.get("strategy", "IterateSATGen")
    if chk in ("sound", "shape", "exception"):
        check_sound(ctx, case, strat, 6, "replay")
    elif chk in ("exhaust", "count", "distinct"):
        check_exhaust(ctx, case, strat, "replay")
    else:
        check_sound(ctx, case, "IterateSATGen", 6, "replay")
        check_exhaust(ctx, case, "IterateSATGen", "replay")
        check_exhaust(ctx, case, "RandomGen", "replay")
