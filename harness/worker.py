"""Run one synthesize_trials call in a separate process (UniGen may terminate
or stall the interpreter): stdin = JSON {desc, strategy, n}; stdout = one JSON line."""
import json
import sys

from . import designs as D
from . import i12_oracle as O


def _short_smgen_timer():
    """SMGen's search gives up when a 60 s threading.Timer fires; shorten that to 8 s (same code path)."""
    import threading
    import types
    import sweetpea._internal.sampling_strategy.scattered_map_core as SM

    class _T(threading.Timer):
        def __init__(self, interval, fn, *a, **k):
            super().__init__(min(interval, 8), fn, *a, **k)
    SM.threading = types.SimpleNamespace(Timer=_T)


_BLOCKS = {}


def one(req):
    if req.get("strategy") == "SMGen":
        _short_smgen_timer()
    try:
        if req.get("key") is not None:
            # jobs that name the same key are calls on ONE block object
            if req["key"] not in _BLOCKS:
                _BLOCKS[req["key"]] = D.build(req["desc"]).block
            blk = _BLOCKS[req["key"]]
        else:
            blk = D.build(req["desc"]).block
        exps = O.synth(blk, req["n"], req["strategy"])
        return {"ok": exps}
    except O.CallTimeout:                       # the in-process wall-clock limit of O.synth (a loaded machine)
        return {"timeout": True}
    except Exception as e:                      # reported to the parent, which decides what it means
        return {"exc": type(e).__name__, "msg": str(e)[:300]}


def main():
    req = json.load(sys.stdin)
    if "jobs" in req:                           # several calls in ONE process (state kept between calls matters)
        out = {"results": [one(j) for j in req["jobs"]]}
    else:
        out = one(req)
    sys.stdout.write("\n@@RESULT@@" + json.dumps(out) + "\n")


if __name__ == "__main__":
    main()
