"""Run one synthesize_trials call in a separate process (UniGen may terminate
or stall the interpreter): stdin = JSON {desc, strategy, n}; stdout = one JSON line."""
import json
import sys

from . import designs as D
from . import i12_oracle as O


def main():
    req = json.load(sys.stdin)
    try:
        blk = D.build(req["desc"]).block
        exps = O.synth(blk, req["n"], req["strategy"])
        out = {"ok": exps}
    except Exception as e:                      # reported to the parent, which decides what it means
        out = {"exc": type(e).__name__, "msg": str(e)[:300]}
    sys.stdout.write("\n@@RESULT@@" + json.dumps(out) + "\n")


if __name__ == "__main__":
    main()
