"""Interface I4: solver text (DIMACS / unigen / OPB printers, both update_file
functions, the three parsers, build_solution) against SPModel.Text, and the
oracles of C27 and C28 on the implementation."""
import itertools
import os
import re
import tempfile
import types
from pathlib import Path

import sweetpea._internal.core.generate.tools.cryptominisat as CMS
import sweetpea._internal.core.generate.tools.unigen as UG
import importlib
import sweetpea._internal.core.generate  # noqa: F401  (the package re-exports functions named like its modules)
import sys as _sys
SNU = _sys.modules["sweetpea._internal.core.generate.sample_non_uniform"]
SU = _sys.modules["sweetpea._internal.core.generate.sample_uniform"]
ILP = importlib.import_module("sweetpea._internal.core.generate.sample_ilp")
if not hasattr(ILP, "update_file"):
    ILP = _sys.modules["sweetpea._internal.core.generate.sample_ilp"]
from sweetpea._internal.core.cnf import CNF, Var
from sweetpea._internal.core.generate.utility import (AssertionType, GenerationRequest, combine_and_save_cnf,
                                                      combine_and_save_opb, combine_cnf_with_requests)

from .i3_card import models_extending, gen_lits


class _Tmp:
    def __enter__(self):
        self.d = tempfile.TemporaryDirectory(prefix="spverif-")
        self.cwd = os.getcwd()
        os.chdir(self.d.name)
        return Path(self.d.name)

    def __exit__(self, *a):
        os.chdir(self.cwd)
        self.d.cleanup()


def gen_cnf(rng, allow_empty=False):
    nv = rng.randint(1, 12)
    n = rng.randint(0, 8)
    vals = []
    for _ in range(n):
        k = rng.randint(0 if allow_empty else 1, min(4, nv))
        cl = gen_lits(rng, k, nv)
        # legal DIMACS / CNF(...) input: a literal repeated inside a clause, a variable with both signs
        if cl and rng.random() < 0.25:
            cl.insert(rng.randrange(len(cl) + 1), rng.choice(cl))
        if cl and rng.random() < 0.08:
            cl.append(-rng.choice(cl))
        vals.append(cl)
    return vals, nv


class _FakeSolver:
    """Stands in for pycryptosat.Solver inside _use_pycryptosat_library: records
    the clauses the DIMACS reader hands to the solver and returns a scripted model."""
    log = None
    model = None

    def __init__(self, *a, **k):
        pass

    def add_clause(self, cl):
        _FakeSolver.log.append(list(cl))

    def solve(self):
        return True, _FakeSolver.model


def py_pycrypto_reader(path):
    real = CMS.pycryptosat
    fake = types.SimpleNamespace(Solver=_FakeSolver)
    _FakeSolver.log = []
    _FakeSolver.model = (None, True, False)
    CMS.pycryptosat = fake
    try:
        cp = CMS._use_pycryptosat_library(path)
        return {"ok": {"clauses": _FakeSolver.log, "stdout": cp.stdout.decode(), "rc": cp.returncode}}
    except ValueError:
        return {"err": "ValueError"}
    finally:
        CMS.pycryptosat = real


def py_parse_cnf(path):
    try:
        cl, ss, nv = UG.parse_cnf_file(path)
        return {"ok": {"clauses": cl, "sampling": ss, "nvars": nv}}
    except UG.UnigenError:
        return {"err": "ValueError"}


def py_solve_parse(text):
    real = CMS.call_cryptominisat
    CMS.call_cryptominisat = lambda f, d=False, *a, **k: (text, CMS.CryptoMiniSATReturnCode.Satisfiable)
    try:
        return {"ok": CMS.cryptominisat_solve(Path("x"), False)}
    except ValueError:
        return {"err": "ValueError"}
    finally:
        CMS.call_cryptominisat = real


def corr_text(ctx):
    d = ctx.drv()
    rng = ctx.rng
    ctx.rules.append("I4: DIMACS / unigen text byte-exact vs SPModel.Text render; parse_cnf_file, the pycryptosat "
                     "DIMACS reader (solver stubbed to record its clauses), cryptominisat_solve's output parser, "
                     "build_solution and sample_non_uniform.update_file (incl. repeated updates and hand-made "
                     "odd files) vs the model's parsers on the same text; non-trivial = CNF with >= 1 clause")
    odd_files = [
        "p cnf 3 2\n\n1 -2 0\n3 0\n",
        "c comment\np cnf 2 1\nc ind 1 2 0\nc ind 2 0\n1 2 0\n\n",
        "p cnf 4 3\nc ind 3 1 0\n1 0 2 0\n0\n-4 0\n",
        "p cnf\n1 2\n",
        "p\n1 0\n",
        "p cnf x 1\n1 0\n",
        "cnf 1 0\n2 0\n",
        "p cnf 2 1\n1 a 0\n",
        "p cnf 2 1\nc ind 1 b 0\n1 0\n",
        "",
        "\n\n",
        "pfoo 1 2\n1 0\n",
    ]
    with _Tmp() as tmp:
        for it in range(400 if ctx.big() else 120):
            vals, nv = gen_cnf(rng, allow_empty=(it % 10 == 9))
            has_empty = any(len(c) == 0 for c in vals)
            cnf = CNF(vals)
            sup = rng.randint(0, 25)
            use_nv = cnf._num_vars if it % 2 == 0 else rng.randint(0, 30)
            if it % 2:
                cnf._num_vars = use_nv
            ptxt = cnf.as_dimacs_string()
            le = d.ask({"op": "text", "m": "dimacs", "vals": vals, "nv": cnf._num_vars})["ok"]
            ctx.count("I4.dimacs")
            ctx.case(("I4.dimacs", repr(vals), cnf._num_vars), len(vals) > 0)
            if not has_empty and (ptxt != le["text"] or not le["tok_ok"]):
                ctx.corr_break("I4.dimacs", {"vals": vals, "nv": cnf._num_vars}, ptxt, le)
            utxt = cnf.as_unigen_string(support_set_length=sup)
            le = d.ask({"op": "text", "m": "unigen", "vals": vals, "nv": cnf._num_vars, "support": sup})["ok"]
            ctx.count("I4.unigen")
            ctx.case(("I4.unigen", repr(vals), cnf._num_vars, sup), len(vals) > 0,
                     sample={"interface": "I4", "cnf": vals, "support": sup, "text": utxt} if it == 3 else None)
            if not has_empty and (utxt != le["text"] or not le["tok_ok"]):
                ctx.corr_break("I4.unigen", {"vals": vals, "nv": cnf._num_vars, "support": sup}, utxt, le)
            if it % 2 == 0 and le["distinct"] != cnf._num_vars:
                ctx.corr_break("I4.num_vars", {"vals": vals}, cnf._num_vars, le["distinct"])
            # parsers on the text Python wrote
            f = tmp / "a.cnf"
            f.write_text(utxt)
            _parsers(ctx, d, f, utxt)
            # update_file, three rounds
            txt = utxt
            for r in range(3):
                sol = gen_lits(rng, rng.randint(0, max(1, min(nv, sup))), max(nv, 1))
                try:
                    SNU.update_file(f, sol)
                    py = {"ok": f.read_text()}
                except (IndexError, ValueError) as e:
                    py = {"err": type(e).__name__}
                lj = d.ask({"op": "text", "m": "update_file", "text": txt, "sol": sol})
                ctx.count("I4.update_file")
                ctx.case(("I4.update", txt, tuple(sol)), True)
                if not has_empty and py != lj:
                    ctx.corr_break("I4.update_file", {"text": txt, "sol": sol}, py, lj)
                    break
                if "ok" not in py:
                    break
                txt = py["ok"]
                _parsers(ctx, d, f, txt)
        for txt in odd_files:
            f = tmp / "odd.cnf"
            f.write_text(txt)
            _parsers(ctx, d, f, txt)
            try:
                SNU.update_file(f, [1, -2])
                py = {"ok": f.read_text()}
            except (IndexError, ValueError) as e:
                py = {"err": type(e).__name__}
            lj = d.ask({"op": "text", "m": "update_file", "text": txt, "sol": [1, -2]})
            ctx.count("I4.update_file.odd")
            if py != lj:
                ctx.corr_break("I4.update_file", {"text": txt, "sol": [1, -2]}, py, lj)
    # solver output and sample lines
    outs = ["s SATISFIABLE\nv 1 -2 3 0\n", "s SATISFIABLE\nv 1 -2\nv 3 0\n", "c x\ns SATISFIABLE\n v -1 0 \n",
            "s SATISFIABLE\nv 0\n", "s SATISFIABLE\nv 1 x 0\n", "s SATISFIABLE\n"]
    for _ in range(60 if ctx.big() else 20):
        n = rng.randint(0, 30)
        model = [(i if rng.random() < 0.5 else -i) for i in range(1, n + 1)]
        outs.append(d.ask({"op": "text", "m": "solve_output", "model": model})["ok"])
    for o in outs:
        py = py_solve_parse(o)
        lj = d.ask({"op": "text", "m": "parse_solve", "text": o})
        ctx.count("I4.parse_solve")
        ctx.case(("I4.solve", o), True)
        if py != lj:
            ctx.corr_break("I4.parse_solve", {"text": o}, py, lj)
    lines = ["v 1 -2 3 0:1", "v 1 -2 3 0", "v -1 0:12", " v 4 5 0:3 ", "v 0:1", "v 1 2 x:y", "", "v", "1 2 3"]
    for _ in range(30):
        n = rng.randint(1, 20)
        lines.append("v " + " ".join(str(i if rng.random() < 0.5 else -i) for i in range(1, n + 1)) + rng.choice([" 0", " 0:1", " 0:7"]))
    for ln in lines:
        try:
            s = SU.build_solution(ln)
            py = {"ok": [list(s.assignment), s.frequency]}
        except (ValueError, IndexError) as e:
            py = {"err": type(e).__name__}
        lj = d.ask({"op": "text", "m": "build_solution", "line": ln})
        ctx.count("I4.build_solution")
        ctx.case(("I4.build", ln), True)
        if py != lj:
            ctx.corr_break("I4.build_solution", {"line": ln}, py, lj)


def _parsers(ctx, d, f, txt):
    py = py_parse_cnf(f)
    lj = d.ask({"op": "text", "m": "parse_cnf", "text": txt})
    ctx.count("I4.parse_cnf")
    ctx.case(("I4.parse_cnf", txt), True)
    if py != lj:
        ctx.corr_break("I4.parse_cnf_file", {"text": txt}, py, lj)
    py = py_pycrypto_reader(f)
    lj = d.ask({"op": "text", "m": "parse_pycrypto", "text": txt})
    ctx.count("I4.parse_pycrypto")
    pyc = {"ok": {"clauses": py["ok"]["clauses"]}} if "ok" in py else py
    ljc = {"ok": {"clauses": lj["ok"]["clauses"]}} if "ok" in lj else lj
    if pyc != ljc:
        ctx.corr_break("I4.pycryptosat_reader", {"text": txt}, pyc, ljc)
    elif "ok" in py and (py["ok"]["stdout"] != "s SATISFIABLE\nv 1 -2 0\n" or py["ok"]["rc"] != 10):
        ctx.corr_break("I4.pycryptosat_output", {"text": txt}, py["ok"]["stdout"], "s SATISFIABLE\\nv 1 -2 0\\n")


class _FakeCms:
    """Stands in for pycmsgen.Solver / pyunigen.Sampler: returns scripted solutions."""
    solution = None
    samples = None

    def __init__(self, *a, **k):
        pass

    def add_clause(self, cl):
        pass

    def solve(self):
        return True, _FakeCms.solution

    def sample(self, num=1, sampling_set=None):
        return 1, 1, _FakeCms.samples


def corr_sample_lines(ctx):
    """call_cmsgen_python / call_unigen_python format solver results into `v …` lines."""
    d = ctx.drv()
    rng = ctx.rng
    ctx.rules.append("I4-samples: call_cmsgen_python / call_unigen_python with the solver libraries stubbed to return "
                     "scripted solutions: the text they hand to build_solution vs SPModel.Text.cmsgenSampleLine / "
                     "unigenSampleLine (sampling set = 1..support with support up to and including the last variable)")
    real_cms, real_uni = UG.pycmsgen, UG.pyunigen
    real_sat = getattr(UG, "pycryptosat", None)
    with _Tmp() as tmp:
        try:
            UG.pycmsgen = types.SimpleNamespace(Solver=_FakeCms)
            UG.pyunigen = types.SimpleNamespace(Sampler=_FakeCms)
            for it in range(120 if ctx.big() else 40):
                nv = rng.randint(1, 8)
                support = rng.choice([nv, nv, rng.randint(0, nv), nv + rng.randint(0, 2)])
                vals = [[v, -v] for v in range(1, nv + 1)]        # satisfiable, mentions every variable
                f = tmp / "s.cnf"
                f.write_text(CNF(vals).as_unigen_string(nv, support_set_length=support))
                sol = [None] + [rng.random() < 0.5 for _ in range(nv)]
                _FakeCms.solution = tuple(sol)
                txt = UG.call_cmsgen_python(f, 1)
                sampling = list(range(1, support + 1)) if support > 0 else list(range(1, nv + 1))
                want = d.ask({"op": "text", "m": "cmsgen_line", "solution": [False] + [bool(x) for x in sol[1:]],
                              "sampling": sampling})["ok"] + "\n"
                ctx.count("I4.cmsgen_line")
                ctx.case(("I4.cms", tuple(sol[1:]), support), True)
                if txt != want:
                    ctx.corr_break("I4.call_cmsgen_python", {"solution": sol[1:], "support": support, "nv": nv}, txt, want)
                sample = [(v if rng.random() < 0.5 else -v) for v in sampling]
                _FakeCms.samples = [sample]
                txt = UG.call_unigen_python(f, 1)
                want = d.ask({"op": "text", "m": "unigen_line", "sample": sample})["ok"] + "\n"
                ctx.count("I4.unigen_line")
                if txt != want:
                    ctx.corr_break("I4.call_unigen_python", {"sample": sample}, txt, want)
        finally:
            UG.pycmsgen, UG.pyunigen = real_cms, real_uni


def gen_reqs(rng, nv, repeats=False):
    reqs = []
    for _ in range(rng.randint(0, 3)):
        n = rng.randint(1, nv)
        vs = sorted(rng.sample(range(1, nv + 1), n))
        if repeats and rng.random() < 0.3:
            # a request may name a variable twice: it then counts twice, in the clauses and in the OPB row alike
            vs.insert(rng.randrange(len(vs) + 1), rng.choice(vs))
        reqs.append({"rel": rng.choice(["EQ", "LT", "GT"]), "k": rng.randint(0, len(vs) + 1), "vars": vs})
    return reqs


def py_opb(vals, reqs, tmp):
    f = tmp / "x.opb"
    if f.exists():
        f.unlink()
    grs = [GenerationRequest(AssertionType[r["rel"]], r["k"], [Var(v) for v in r["vars"]]) for r in reqs]
    import contextlib, io
    with contextlib.redirect_stdout(io.StringIO()):
        combine_and_save_opb(f, CNF(vals), 0, grs)
    return f.read_text()


def corr_opb(ctx):
    d = ctx.drv()
    rng = ctx.rng
    ctx.rules.append("I4-opb: combine_and_save_opb file text and sample_ilp.update_file's appended line, byte-exact "
                     "vs SPModel.Text.opbText / opbBlockText; non-trivial = at least one clause or request")
    with _Tmp() as tmp:
        for it in range(300 if ctx.big() else 100):
            vals, nv = gen_cnf(rng)
            reqs = gen_reqs(rng, nv)
            py = py_opb(vals, reqs, tmp)
            lj = d.ask({"op": "text", "m": "opb", "vals": vals, "reqs": reqs})["ok"]
            ctx.count("I4.opb")
            ctx.case(("I4.opb", repr(vals), repr(reqs)), bool(vals or reqs),
                     sample={"interface": "I4-opb", "cnf": vals, "requests": reqs, "text": py} if it == 2 else None)
            if py != lj:
                ctx.corr_break("I4.opb", {"vals": vals, "reqs": reqs}, py, lj)
            sol = gen_lits(rng, rng.randint(1, nv), nv)
            f = tmp / "x.opb"
            before = f.read_text()
            ILP.update_file(f, sol)
            app = f.read_text()[len(before):]
            lj = d.ask({"op": "text", "m": "opb_block", "sol": sol})["ok"]
            ctx.count("I4.opb_block")
            if app != lj:
                ctx.corr_break("I4.opb_block", {"sol": sol}, app, lj)


# ------------------------------------------------------------------ oracles

def opb_eval_text(text, a):
    """Independent evaluator of the OPB text: every constraint `terms cmp rhs ;`."""
    for row in text.split(";"):
        row = row.strip()
        if not row:
            continue
        m = re.match(r"^(.*?)(>=|<=|=)\s*(-?\d+)$", row, re.S)
        if not m:
            raise ValueError("unparsable OPB row %r" % row)
        lhs = 0
        toks = m.group(1).split()
        for i in range(0, len(toks), 2):
            coef = int(toks[i])
            var = int(toks[i + 1][1:])
            lhs += coef * (1 if a[var] else 0)
        rhs = int(m.group(3))
        ok = {">=": lhs >= rhs, "<=": lhs <= rhs, "=": lhs == rhs}[m.group(2)]
        if not ok:
            return False
    return True


def c28_case(vals, reqs, nv, tmp, sol=None):
    text = py_opb(vals, reqs, tmp)
    grs = [GenerationRequest(AssertionType[r["rel"]], r["k"], [Var(v) for v in r["vars"]]) for r in reqs]
    sat = combine_cnf_with_requests(CNF(vals), nv, 0, grs)
    clauses = [[int(v) for v in cl] for cl in sat._vals]
    top = max([nv] + [abs(l) for cl in clauses for l in cl])
    block_text = None
    if sol is not None:
        f = tmp / "x.opb"
        ILP.update_file(f, sol)
        block_text = f.read_text()
    for bits in itertools.product([False, True], repeat=nv):
        a = {i + 1: b for i, b in enumerate(bits)}
        o = opb_eval_text(text, a)
        m, _ = models_extending(clauses, top, a, limit=1)
        if o != (m >= 1):
            return "assignment %s: OPB text %s it, SAT encoding %s it (clauses %s, requests %s)" % (
                a, "accepts" if o else "rejects", "accepts" if m else "rejects", vals, reqs)
        if block_text is not None:
            ob = opb_eval_text(block_text, a)
            same = all(a[abs(l)] == (l > 0) for l in sol)
            if ob != (o and not same):
                return "blocking line for solution %s: assignment %s %s" % (sol, a, "accepted" if ob else "rejected")
    return None


class _FakeGurobi:
    """A stand-in for the `gurobipy` module with the few calls sample_ilp.compute_solutions makes: `read` parses the
    OPB file (independent evaluator above), `optimize` finds a 0/1 solution by exhaustive search.  Variables are
    reported in *descending* order so that nothing may rely on their order."""

    class GRB:
        OPTIMAL = 2

    class Env:
        def __init__(self, empty=False):
            pass

        def __enter__(self):
            return self

        def __exit__(self, *a):
            return False

        def setParam(self, *a):
            pass

        def start(self):
            pass

    class _V:
        def __init__(self, i, x):
            self.VarName, self.X = "v%d" % i, float(x)

    class _Model:
        def __init__(self, text):
            body = "\n".join(l for l in text.splitlines() if not l.lstrip().startswith("*"))
            self.text = body
            self.vars = sorted({int(m) for m in re.findall(r"v(\d+)", body)})
            self.Status = 0
            self.sol = None

        def optimize(self):
            top = max(self.vars) if self.vars else 0
            for bits in itertools.product([False, True], repeat=len(self.vars)):
                a = {v: b for v, b in zip(self.vars, bits)}
                full = {i: a.get(i, False) for i in range(1, top + 1)}
                if opb_eval_text(self.text, full):
                    self.Status, self.sol = 2, a
                    return
            self.Status = 3

        def getVars(self):
            return [_FakeGurobi._V(v, 1 if self.sol[v] else 0) for v in sorted(self.vars, reverse=True)]

    @staticmethod
    def read(name, env=None):
        return _FakeGurobi._Model(Path(name).read_text())


def c28_iterate(vals, reqs, nv, support, tmp):
    """sample_ilp's iterate-and-exclude loop, driven with the stand-in solver: it must return every assignment of
    the support variables that extends to a solution of the written OPB problem, each exactly once."""
    import contextlib, io
    mod = types.ModuleType("gurobipy")
    mod.Env, mod.read, mod.GRB = _FakeGurobi.Env, _FakeGurobi.read, _FakeGurobi.GRB
    old = _sys.modules.get("gurobipy")
    _sys.modules["gurobipy"] = mod
    cwd = os.getcwd()
    try:
        os.chdir(tmp)
        f = Path("iter.opb")
        if f.exists():
            f.unlink()
        grs = [GenerationRequest(AssertionType[r["rel"]], r["k"], [Var(v) for v in r["vars"]]) for r in reqs]
        with contextlib.redirect_stdout(io.StringIO()):
            combine_and_save_opb(f, CNF(vals), support, grs)
            text0 = f.read_text()
            got = ILP.compute_solutions(f, support, 1 << (nv + 1))
    finally:
        os.chdir(cwd)
        if old is None:
            _sys.modules.pop("gurobipy", None)
        else:
            _sys.modules["gurobipy"] = old
    body = "\n".join(l for l in text0.splitlines() if not l.lstrip().startswith("*"))
    want = set()
    for bits in itertools.product([False, True], repeat=nv):
        a = {i + 1: b for i, b in enumerate(bits)}
        if opb_eval_text(body, a):
            want.add(tuple((i if a[i] else -i) for i in range(1, support + 1)))
    gotk = [tuple(s) for s in got]
    if len(set(gotk)) != len(gotk):
        return "the iteration returned a solution twice: %s" % gotk
    if set(gotk) != want:
        return "the iteration returned %s, the support assignments that extend to a solution are %s" % (sorted(gotk), sorted(want))
    return None


def oracle_c28(ctx, budget_s):
    rng = ctx.rng
    ctx.rules.append("C28 oracle: for random clause sets + requests over <= 7 variables and EVERY assignment: an "
                     "independent evaluator of the OPB text agrees with 'the SAT encoding has an extension'; the "
                     "appended line rejects exactly the previous solution; sample_ilp.compute_solutions driven with a stand-in "
                     "solver module returns every support assignment that extends to a solution exactly once")
    t_end = ctx.elapsed() + budget_s
    with _Tmp() as tmp:
        # exhaustive single requests
        for n in range(1, 5):
            for k in range(0, n + 2):
                for rel in ("EQ", "LT", "GT"):
                    r = c28_case([], [{"rel": rel, "k": k, "vars": list(range(1, n + 1))}], n, tmp)
                    ctx.count("C28.oracle.single")
                    ctx.case(("C28", rel, n, k), True)
                    if r:
                        ctx.fail("C28: " + r, {"vals": [], "reqs": [{"rel": rel, "k": k, "vars": list(range(1, n + 1))}], "nv": n})
                        return
        while ctx.elapsed() < t_end:
            nv = rng.randint(1, 7)
            vals = [gen_lits(rng, rng.randint(1, min(3, nv)), nv) for _ in range(rng.randint(0, 5))]
            for cl in vals:
                if rng.random() < 0.3:          # repeated literal (also a negated one) inside a clause
                    cl.insert(rng.randrange(len(cl) + 1), rng.choice(cl))
            reqs = gen_reqs(rng, nv, repeats=True)
            sol = gen_lits(rng, rng.randint(1, nv), nv)
            r = c28_case(vals, reqs, nv, tmp, sol)
            ctx.count("C28.oracle.random")
            ctx.case(("C28", repr(vals), repr(reqs), tuple(sol)), True,
                     sample={"oracle": "C28", "clauses": vals, "requests": reqs, "previous_solution": sol} if len(ctx.samples) < 3 else None)
            if r:
                ctx.fail("C28: " + r, {"vals": vals, "reqs": reqs, "nv": nv, "sol": sol})
                return
            if nv >= 2 and ctx.counters.get("C28.oracle.iterate", 0) < (600 if ctx.big() else 80):
                # the iterate-and-exclude loop itself (stand-in solver), on a support smaller than the variable set
                support = rng.randint(1, nv - 1)
                used = {abs(l) for cl in vals for l in cl} | {v for q in reqs for v in q["vars"]}
                vals2 = vals + [[v, -v] for v in range(1, nv + 1) if v not in used]      # mention every variable
                r = c28_iterate(vals2, reqs, nv, support, tmp)
                ctx.count("C28.oracle.iterate")
                if r:
                    ctx.fail("C28: " + r, {"vals": vals2, "reqs": reqs, "nv": nv, "support": support, "iterate": True})
                    return
            if ctx.counters.get("C28.oracle.random", 0) >= (3000 if ctx.big() else 400):
                break


def c27_case(vals, nv, support, tmp, rounds=3):
    """Implementation-only check of C27 on one CNF. Returns None or a message."""
    import contextlib, io
    f = tmp / "c27.cnf"
    cnf = CNF(vals)
    with contextlib.redirect_stdout(io.StringIO()):
        combine_and_save_cnf(f, cnf, nv, support, [])
    text = f.read_text()
    used = {abs(l) for c in vals for l in c}
    head = text.splitlines()[0].split()
    if head[:2] != ["p", "cnf"] or int(head[2]) < len(used) or int(head[3]) != len(vals):
        return "header %r for %d distinct variables, %d clauses" % (text.splitlines()[0], len(used), len(vals))
    cl, ss, pnv = UG.parse_cnf_file(f)
    if sorted(map(tuple, cl)) != sorted(map(tuple, vals)) or ss != list(range(1, support + 1)) and support > 0:
        return "parse_cnf_file recovered clauses %s / sampling set %s from CNF %s, support %d" % (cl, ss, vals, support)
    r = py_pycrypto_reader(f)
    if sorted(map(tuple, r["ok"]["clauses"])) != sorted(map(tuple, vals)):
        return "pycryptosat reader recovered %s from %s" % (r["ok"]["clauses"], vals)
    top = max([nv, support] + list(used))
    def models(clauses):
        out = set()
        for bits in itertools.product([False, True], repeat=top):
            a = (None,) + bits
            if all(any((a[abs(l)] if l > 0 else not a[abs(l)]) for l in c) for c in clauses):
                out.add(bits)
        return out
    cur = models(vals)
    for _ in range(rounds):
        sol = CMS.cryptominisat_solve(f, False)
        if not sol:
            if cur:
                return "solver wrapper reports no solution but the CNF %s has %d models" % (vals, len(cur))
            return None
        full = sol
        if any(abs(l) != i + 1 for i, l in enumerate(full[:-1])) or full[-1] != 0:
            return "parsed solver output is not an assignment of 1..n followed by 0: %s" % (full,)
        bits = tuple((full[i] > 0) if i < len(full) - 1 else False for i in range(top))
        if tuple(bits) not in cur:
            return "parsed solver output %s does not satisfy the file's clauses" % (full,)
        s = sol[:support]
        SNU.update_file(f, s)
        cl2, _, _ = UG.parse_cnf_file(f)
        new = models(cl2)
        want = {m for m in cur if not all(m[abs(l) - 1] == (l > 0) for l in s)}
        if new != want:
            return "after update_file with solution %s the file's models are not 'old models minus that support assignment' (CNF %s, support %d)" % (s, vals, support)
        h2 = f.read_text().splitlines()[0].split()
        if int(h2[3]) != len(cl2) and all(len(c) for c in vals) and s:
            return "header clause count %s after update, file has %d clauses" % (h2[3], len(cl2))
        cur = new
    return None


def c27_sampler_case(vals, nv, support, use_cmsgen):
    import contextlib, io
    with contextlib.redirect_stdout(io.StringIO()), contextlib.redirect_stderr(io.StringIO()):
        sols = SU.sample_uniform(3, CNF(vals), nv, support, [], use_docker=False, use_cmsgen=use_cmsgen)
    for s in sols:
        a = list(s.assignment)
        if [abs(l) for l in a] != list(range(1, support + 1)):
            return "%s sample %s is not an assignment of the sampling set 1..%d" % ("CMSGen" if use_cmsgen else "UniGen", a, support)
        m, _ = models_extending(vals, max(nv, support), {abs(l): l > 0 for l in a}, limit=1)
        if m == 0:
            return "%s sample %s cannot be extended to a model of %s" % ("CMSGen" if use_cmsgen else "UniGen", a, vals)
    return None


def oracle_c27(ctx, budget_s):
    rng = ctx.rng
    ctx.rules.append("C27 oracle: random CNFs over <= 8 variables written with combine_and_save_cnf: header counts, "
                     "both readers recover the clause multiset and the sampling set 1..support, the real solver's "
                     "parsed output satisfies the file, and each update_file removes exactly the models agreeing "
                     "with the previous solution on the support (all assignments enumerated)")
    t_end = ctx.elapsed() + budget_s
    with _Tmp() as tmp:
        n = 0
        while ctx.elapsed() < t_end and n < (1500 if ctx.big() else 150):
            nv = rng.randint(1, 8) if n % 5 != 1 else 10
            vals = [gen_lits(rng, rng.randint(1, min(3, nv)), nv) for _ in range(rng.randint(1, 6))]
            if nv == 10:
                vals.append([rng.choice([10, -10]), rng.choice([1, -2, 3])])     # the last variable is number 10
            used = max(abs(l) for c in vals for l in c)
            support = rng.randint(1, used) if nv != 10 else used
            r = c27_case(vals, nv, support, tmp)
            n += 1
            ctx.count("C27.oracle")
            ctx.case(("C27", repr(vals), support), True,
                     sample={"oracle": "C27", "cnf": vals, "support": support} if n == 2 else None)
            if r:
                ctx.fail("C27: " + r, {"vals": vals, "nv": nv, "support": support})
                return
            if n % 3 == 0:
                # the sampler wrappers, with the sampling set reaching the last variable
                sup2 = used if n % 2 else support
                models, _ = models_extending(vals, used, {}, limit=1)
                if models:
                    for cms in (True, False):
                        if not cms and n % 9:
                            continue
                        r = c27_sampler_case(vals, used, sup2, cms)
                        ctx.count("C27.oracle.sampler." + ("cmsgen" if cms else "unigen"))
                        if r:
                            ctx.fail("C27: " + r, {"vals": vals, "nv": used, "support": sup2, "sampler": "cmsgen" if cms else "unigen"})
                            return
