"""Interface I9: the candidate space of RandomGen (`UCSolutionEnumerator`) vs `SPModel.RandomGen`.

For real blocks the harness builds the enumerator, reads the data the enumeration depends on (number of crossing
instances, `_m_or_counters`, the valid source combinations per instance, the level counts of the independent factors)
and compares, exactly:
  * the solution counts and component shapes of a full round and of the leftover round;
  * `generate_trial_values` for randomly drawn components (the enumerator's own `random_components`), reported as
    indices (crossing instance, source combination, level index per independent factor)."""
import random

from sweetpea._internal.sampling_strategy.random import UCSolutionEnumerator

from . import oracles_design as OD
from .designs import quiet


def enum_data(e):
    cci = e._UCSolutionEnumerator__complex_crossing_instances
    d = {"op": "randomgen", "q": len(e._crossing_instances),
         "simple_perm": bool(cci == 1 and e._crossing_is_unweighted), "unweighted": bool(e._crossing_is_unweighted),
         "valid": [list(v) for v in e._valid_source_combinations_indices],
         "ind_levels": [len(lv) for _, lv in e._ind_factor_levels]}
    if isinstance(e._m_or_counters, int):
        d["m"] = e._m_or_counters
    else:
        d["counters"] = list(e._m_or_counters)
    return d


def _same(d1, d2):
    return set(d1) == set(d2) and all(d1[k] is d2[k] for k in d1)


def tv_indices(e, tvs):
    out = []
    for tv in tvs:
        inst = next(i for i, ci in enumerate(e._crossing_instances) if all(tv.get(f) is l for f, l in ci.items()))
        src = next(i for i, sc in enumerate(e._source_combinations) if all(tv.get(f) is l for f, l in sc.items()))
        ind = [levels.index(tv[f]) for f, levels in e._ind_factor_levels]
        out.append([inst, src, ind])
    return out


def py_count(e, shape, count):
    return {"ok": {"count": count, "crossings_shape": shape.crossings_shape,
                   "combinations_shapes": list(shape.combinations_shapes),
                   "independent_shapes": list(shape.independent_shapes)}}


def compare_block(ctx, d, blk, desc):
    """all comparisons for one block; returns the number of comparisons made"""
    import signal
    from . import i12_oracle as O
    old = signal.signal(signal.SIGALRM, O._alarm)
    signal.alarm(4)
    try:
        e = quiet(UCSolutionEnumerator, blk)
    except O.CallTimeout:
        ctx.count("I9.enumerator-slow")
        return 0
    except Exception as ex:  # noqa: BLE001  (designs RandomGen cannot enumerate: counted, not compared)
        ctx.count("I9.enumerator-raises:" + type(ex).__name__)
        return 0
    finally:
        signal.alarm(0)
        signal.signal(signal.SIGALRM, old)
    data = enum_data(e)
    n = 0
    full = e.crossing_size
    leftover = (blk.trials_per_sample() - e._preamble_size) % full if full else 0
    rounds = [(full, e._components_shape, e._solution_count, e._pmemo, 0)]
    if leftover:
        rounds.append((leftover, e._leftover_components_shape, e._leftover_solution_count, e._leftover_pmemo, leftover))
        ctx.count("I9.leftover")
    for first_n, shape, count, pmemo, lo in rounds:
        sh = shape.combinations_shapes
        summed = not (all(x == sh[0] for x in sh) and (isinstance(e._m_or_counters, int) or
                                                       all(m == e._m_or_counters[0] for m in e._m_or_counters))) \
            and not (first_n == data["q"] and data["unweighted"])
        if summed and shape.crossings_shape > 3000:
            ctx.count("I9.skipped-large-sum")       # the count is a sum over every permutation: too slow to mirror
            continue
        req = dict(data, method="count", first_n=first_n)
        py = py_count(e, shape, count)
        le = d.ask(req)
        n += 1
        ctx.count("I9.count")
        wf = le.get("ok", {}).pop("wf", None) if isinstance(le.get("ok"), dict) else None
        if wf is False:
            # the decidable hypothesis of the C05 theorems does not hold for this block's enumerator
            ctx.corr_break("I9.wf", req, desc, {"theorem_hypothesis_fails": "EnumData.wf"})
            return n
        if py != le:
            ctx.corr_break("I9.count", req, desc, {"python": str(py)[:500], "lean": str(le)[:500]})
            return n
        if count == 0 or shape.crossings_shape == 0:
            ctx.count("I9.no-solutions")
            continue
        for _ in range(6 if not ctx.big() else 25):
            try:
                comps = e.random_components(shape, first_n, lo)
            except ValueError:
                # randrange(0): an instance without compatible source combination was drawn (no candidate)
                ctx.count("I9.empty-range")
                continue
            req = dict(data, method="trial_values", perm=comps[0], src=list(comps[1]), ind=list(comps[2]),
                       trial_count=first_n)
            try:
                py = {"ok": tv_indices(e, e.generate_trial_values(comps, first_n, len(e._crossing_instances), pmemo))}
            except Exception as ex:  # noqa: BLE001
                py = {"err": type(ex).__name__}
            le = d.ask(req)
            n += 1
            ctx.count("I9.trial_values")
            ctx.case("I9:" + str(hash(str(req))), sample={"interface": "I9", "request": req} if n <= 2 and ctx.counters["I9.trial_values"] <= 2 else None)
            if not data["simple_perm"]:
                ctx.count("I9.with-copies")
            if not data["unweighted"]:
                ctx.count("I9.weighted")
            if data["ind_levels"]:
                ctx.count("I9.independent")
            if any(len(v) != len(data["valid"][0]) for v in data["valid"]):
                ctx.count("I9.varying-shapes")
            if py != le:
                ctx.corr_break("I9.trial_values", req, desc, {"python": str(py)[:500], "lean": str(le)[:500]})
                return n
    return n


def corr_randomgen(ctx):
    d = ctx.drv()
    ctx.rules.append("I9: for generated designs the solution counts / component shapes of UCSolutionEnumerator (full and "
                     "leftover round) and generate_trial_values for components drawn by random_components vs "
                     "SPModel.RandomGen, compared exactly (as indices of crossing instance, source combination and "
                     "independent levels)")
    state = random.getstate()
    random.seed(ctx.rng.randrange(1 << 30))
    try:
        for case in OD.gen_cases(ctx, 20 if not ctx.big() else 150, max_trials=8):
            blk = case.fresh_block()
            compare_block(ctx, d, blk, OD.sample_desc(case))
            if len(ctx.corr_breaks) > 3:
                return
    finally:
        random.setstate(state)
