#!/usr/bin/env python3
"""Regenerate MANIFEST.json from tools/manifest_data.py (one entry per claimed property)."""
import json, os, sys
HERE = os.path.dirname(os.path.dirname(os.path.abspath(__file__)))
sys.path.insert(0, os.path.join(HERE, "tools"))
import manifest_data as M

props = [json.loads(l)["id"] for l in open(os.path.join(HERE, "properties.jsonl"))]
checks = []
for pid in props:
    if pid not in M.CHECKS:
        continue
    c = M.CHECKS[pid]
    checks.append({
        "property_id": pid,
        "quick_cmd": "./check %s --tier quick" % pid,
        "thorough_cmd": "./check %s --tier thorough" % pid,
        "evidence_file": "evidence/%s.json" % pid,
        "replay_cmd_template": "./check replay {path}",
        "engine": "lean4-model+correspondence",
        "level_claimed": {"category": c.get("category", "proof"), "text": c["text"], "design_ref": c["design_ref"]},
        "level_note": c["note"],
        "technique": c["technique"],
    })
na = [{"property_id": pid, "reason": M.NOT_APPLICABLE.get(pid, M.DEFAULT_NA)} for pid in props if pid not in M.CHECKS]
man = {
    "version": 1,
    "setup_cmd": "cd lean && lake build SPModel SPProofs spdrv",
    "hooks": {
        "guard": "SWEETPEA_VERIF",
        "enable": "no hooks are needed: the harness reaches private functions through module dictionaries and instance attributes; the variable is reserved",
        "baseline_off_cmd": "cd /repo && /venv/bin/python -m pytest -ra -q -p no:cacheprovider --timeout=900 --continue-on-collection-errors",
        "source_commits": [],
        "add_only": True,
    },
    "engines": [{
        "name": "lean4-model+correspondence",
        "path": "lean/ (Lake project: SPModel = executable model, SPProofs = theorems, spdrv = driver), harness/ (Python correspondence + oracles)",
        "serves_properties": [c["property_id"] for c in checks],
        "kind_free_text": "machine-checked proof in Lean 4 about a hand-written executable model, tied to /repo by a differential correspondence check over a line protocol",
    }],
    "checks": checks,
    "not_applicable": na,
    "notes": M.NOTES,
}
json.dump(man, open(os.path.join(HERE, "MANIFEST.json"), "w"), indent=1)
print("checks:", len(checks), "not_applicable:", len(na))
