#!/bin/bash
# run every registered quick (or $1=thorough) check, N at a time; summary on stdout
tier=${1:-quick}; par=${2:-6}
cd /verif
ids=$(python3 -c "import json; print(' '.join(c['property_id'] for c in json.load(open('MANIFEST.json'))['checks']))")
mkdir -p /tmp/spverif-runall
printf '%s\n' $ids | xargs -P $par -I{} sh -c "timeout 3000 ./check {} --tier $tier > /tmp/spverif-runall/{}.log 2>&1; echo \"{} exit=\$?\""
for i in $ids; do grep -E "^(OK|VIOLATION|INFRA)" /tmp/spverif-runall/$i.log | tail -1; done
rm -rf /tmp/spverif-runall
