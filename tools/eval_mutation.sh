#!/bin/bash
# usage: tools/eval_mutation.sh <name> <worktree> <property> [more properties...]
# Confirms a seeded change (tests pass, demo fails with it and passes without), stores it under seeded/<name>/,
# applies it to /repo, runs the given checks, and reverts /repo.
set -u
name=$1; wt=$2; shift 2
out=/verif/seeded/$name
mkdir -p $out
git -C $wt diff -- sweetpea > $out/patch.diff
cp $wt/demo_mutation.py $out/demo_mutation.py 2>/dev/null
cp $wt/mutation_notes.md $out/notes.md 2>/dev/null
echo "== patch: $(wc -l < $out/patch.diff) lines"
( cd $wt && PYTHONPATH=$wt PYTHONWARNINGS=ignore timeout 300 /venv/bin/python demo_mutation.py >/dev/null 2>&1; echo "demo with change: exit $?" )
( cd $wt && git apply -R $out/patch.diff && PYTHONPATH=$wt PYTHONWARNINGS=ignore timeout 300 /venv/bin/python demo_mutation.py >/dev/null 2>&1; echo "demo without change: exit $?"; git apply $out/patch.diff )
( cd $wt && PYTHONPATH=$wt timeout 900 /venv/bin/python -m pytest -q -p no:cacheprovider -n 14 --timeout=900 2>&1 | tail -1 )
git -C /repo apply $out/patch.diff || { echo "patch does not apply to /repo"; exit 2; }
for p in "$@"; do
  ( cd /verif && timeout 1500 ./check $p 2>&1 | grep -v "^KNOWN" | cut -c1-400 | tail -3 )
done
git -C /repo checkout -- . ; git -C /repo status --short | head -3
