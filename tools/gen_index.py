#!/usr/bin/env python3
"""Regenerate lean/PROPERTY_INDEX.json: per property, the theorems of its
Properties/<id>.lean file (all `theorem` declarations there), their status,
and the modules the audit must import.  Extra (cross-property) theorems can be
listed in EXTRA."""
import json, os, re
HERE = os.path.dirname(os.path.dirname(os.path.abspath(__file__)))
PROPS = os.path.join(HERE, "lean", "SPProofs", "Properties")
DERIVE = [("SPProofs.Pipeline.DeriveSimple", "SPModel.Derive." + n, "full") for n in ("derivation_grid_seq", "grid_factor_function", "grid_factor_iff", "level_unique", "level_exists", "actual_mem", "mem_generate", "generate_ambiguous", "mem_product")]
FILL = [("SPProofs.Misc.Fill", "SPModel.Fill." + n, "full") for n in ("windowKeyS_one", "windowKeyS_group", "fillEntry_not_applicable", "selectLevel_ok", "selectLevel_error", "fillColumn_ok", "fillEntry_error", "fillEntry_matching")]
EXTRA = {
    "C04": FILL, "C05": FILL, "C06": FILL, "C07": FILL,
    "C24": [("SPProofs.Misc.C24Laws", "SPModel.C24." + n, "full") for n in (
                "cross_eq_multiCross", "cross_multi_geo", "cross_multi_error", "repeat_nil_eq", "repeat_nil_geo",
                "repeat_nil_error", "repeat_nil_eq_of_align", "repeat_nil_cross", "merge_singleton_eq",
                "merge_singleton_geo", "merge_singleton_cross", "merge_singleton_multiCross",
                "Witness.cross_multi_error_differs", "Witness.merge_singleton_false_weight",
                "Witness.merge_singleton_false_equal")],
    "C16": [("SPProofs.Properties.C25", "SPModel.C25." + n, "full") for n in (
                "create_n_pos", "create_n_ge_minTrials", "create_n_ge_round", "create_n_ge_round_post",
                "create_n_eq", "create_n_least", "create_n_least_post", "create_n_le_of_common_multiple",
                "create_n_sustain_one", "geo_n_eq", "nest_trials")],
    "C02": [("SPProofs.Pipeline.SeqMain", "SPModel.C02.sequences_iff_models", "full"),
            ("SPProofs.Pipeline.SeqMain", "SPModel.C02.sequence_unique", "full"),
            ("SPProofs.Pipeline.SeqMain", "SPModel.Pipeline.meaningAll_iff_seq", "full"),
            ("SPProofs.Pipeline.SeqBasic", "SPModel.Pipeline.exists_seq_of_consistency", "full"),
            ("SPProofs.Pipeline.SeqBasic", "SPModel.Pipeline.meaning_iff_seqMeaning", "full")],
    "C15": [("SPProofs.Misc.Implied", "SPModel.Implied.column_spec", "full"),
            ("SPProofs.Misc.Implied", "SPModel.Implied.column_length", "full")] + DERIVE + FILL[-1:],
    # property -> [(module, theorem, status)]: theorems that live outside Properties/<id>.lean
    "C01": [("SPProofs.Pipeline.VarLists", "SPModel.Pipeline.variableLists_eq", "full"),
            ("SPProofs.Pipeline.VarLists", "SPModel.Pipeline.ranges_tile", "full"),
            ("SPProofs.Pipeline.VarLists", "SPModel.Pipeline.mem_ranges_some", "full"),
            ("SPProofs.Pipeline.VarLists", "SPModel.Pipeline.mem_trialNumbers", "full"),
            ("SPProofs.Pipeline.MeaningRuns", "SPModel.Pipeline.exclude_meaning", "full"),
            ("SPProofs.Pipeline.MeaningRuns", "SPModel.Pipeline.pin_meaning", "full"),
            ("SPProofs.Pipeline.MeaningRuns", "SPModel.Pipeline.atMost_meaning", "full"),
            ("SPProofs.Pipeline.MeaningRuns", "SPModel.Pipeline.atLeast_meaning", "full"),
            ("SPProofs.Pipeline.MeaningRuns", "SPModel.Pipeline.exactlyInARow_meaning", "full"),
            ("SPProofs.Pipeline.MeaningRuns", "SPModel.Pipeline.exactlyK_meaning", "full"),
            ("SPProofs.Pipeline.MeaningBasic", "SPModel.Pipeline.consistency_meaning", "full"),
            ("SPProofs.Pipeline.MeaningBasic", "SPModel.Pipeline.sequential_meaning", "full"),
            ("SPProofs.Pipeline.MeaningBasic", "SPModel.Pipeline.sustain_meaning", "full"),
            ("SPProofs.Pipeline.MeaningBasic", "SPModel.Pipeline.derivationSimple_meaning", "full"),
            ("SPProofs.Pipeline.MeaningCross", "SPModel.Pipeline.crossStep_meaning", "full"),
            ("SPProofs.Pipeline.Assemble", "SPModel.Pipeline.applyConstraint_meaning", "full"),
            ("SPProofs.Pipeline.Assemble", "SPModel.Pipeline.buildBackend_meaning", "full")] + DERIVE[:2],
}
USES = {
    # properties whose check also relies on theorems proved in other property files
    "C28": ["C10"],
    "C01": ["C02", "C03", "C10", "C11", "C12"], "C02": ["C09", "C03", "C01", "C10", "C11", "C12"], "C03": ["C10", "C11", "C12"],
    "C04": ["C05", "C13"], "C05": ["C13"], "C06": ["C05", "C13"], "C07": ["C02", "C03", "C01", "C05", "C13"], "C08": ["C03", "C10", "C13"],
    "C16": ["C26", "C14"], "C14": ["C16"], "C25": ["C26", "C01"], "C17": ["C01"],
}
idx = {}
for fn in sorted(os.listdir(PROPS)):
    if not fn.endswith(".lean"):
        continue
    pid = fn[:-5]
    src = open(os.path.join(PROPS, fn), encoding="utf-8").read()
    ns = re.search(r"^namespace\s+(\S+)", src, re.M).group(1)
    thms = []
    for m in re.finditer(r"^theorem\s+(\S+)", src, re.M):
        name = m.group(1)
        # a theorem whose proof is still `sorry` is not registered as an obligation
        body = src[m.end():]
        nxt = re.search(r"^(theorem|example|def|lemma|/--|end )", body, re.M)
        body = body[: nxt.start()] if nxt else body
        if re.search(r"\bsorry\b", body):
            continue
        status = "partial" if name.endswith("_partial") else "full"
        thms.append({"name": ns + "." + name, "status": status})
    idx[pid] = {"modules": ["SPProofs.Properties." + pid], "theorems": thms}
for pid, items in EXTRA.items():
    e = idx.setdefault(pid, {"modules": [], "theorems": []})
    for mod, name, status in items:
        if mod not in e["modules"]:
            e["modules"].append(mod)
        e["theorems"].append({"name": name, "status": status})
for pid, others in USES.items():
    if pid in idx or any(o in idx for o in others):
        e = idx.setdefault(pid, {"modules": [], "theorems": []})
        for o in others:
            if o in idx and o != pid:
                e["modules"] = list(dict.fromkeys(e["modules"] + idx[o]["modules"]))
                have = {t["name"] for t in e["theorems"]}
                e["theorems"] += [dict(t, via=o) for t in idx[o]["theorems"] if t["name"] not in have and "via" not in t]
json.dump(idx, open(os.path.join(HERE, "lean", "PROPERTY_INDEX.json"), "w"), indent=1)
for k, v in idx.items():
    print(k, len(v["theorems"]))
