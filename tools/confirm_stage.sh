#!/bin/bash
# usage: tools/confirm_stage.sh <name> <worktree> <property> [more checks...]
# Confirms a seeded change in its own scratch worktree (demo fails with it, passes without, full suite passes), records it
# under seeded/<name>/ and runs the given checks against the worktree (SWEETPEA_REPO) - /repo is never touched.
name=$1; wt=$2; shift 2
VROOT=$(cd "$(dirname "$0")/.." && pwd)
$VROOT/tools/stage_mutation.sh $name $wt $1
patch=$VROOT/seeded/$name/patch.diff
echo "== patch: $(wc -l < $patch) lines"
( cd $wt && PYTHONPATH=$wt PYTHONWARNINGS=ignore timeout 300 /venv/bin/python demo_mutation.py >/dev/null 2>&1; echo "demo with change: exit $?" )
( cd $wt && git apply -R $patch && PYTHONPATH=$wt PYTHONWARNINGS=ignore timeout 300 /venv/bin/python demo_mutation.py >/dev/null 2>&1; echo "demo without change: exit $?"; git apply $patch )
( cd $wt && PYTHONPATH=$wt timeout 900 /venv/bin/python -m pytest -q -p no:cacheprovider -n 8 --timeout=900 2>&1 | tail -1 )
for p in "$@"; do
  ( cd $VROOT && SWEETPEA_REPO=$wt timeout 1500 ./check $p 2>&1 | grep -E "^(OK|VIOLATION|INFRA)" | cut -c1-400 | tail -2 )
done
