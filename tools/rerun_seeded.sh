#!/bin/bash
# Regression over the recorded seeded changes: each is applied to a scratch copy of /repo's working tree
# (never to /repo itself), the check of the property it breaks runs against that copy, the copy is removed.
# usage: tools/rerun_seeded.sh [parallel=6] [name-filter]
par=${1:-6}; filt=${2:-}
cd "$(dirname "$0")/.."; VROOT=$(pwd); export VROOT
scratch=$(mktemp -d /tmp/spverif-seeded.XXXXXX)
one() {
  d=$1; scratch=$2
  name=$(basename $d)
  prop=$(python3 -c "import json,sys; print(json.load(open('$d/meta.json')).get('breaks_property','${name%%-*}'))")
  extra=$(python3 -c "import json,sys; print(' '.join(json.load(open('$d/meta.json')).get('caught_by', [])))")
  wt=$scratch/$name
  mkdir -p $wt && (cd /repo && git ls-files -z | xargs -0 cp --parents -t $wt) || { echo "$name copy-failed"; return; }
  (cd $wt && git init -q . && git apply $OLDPWD/$d/patch.diff) 2>/dev/null || (cd $wt && patch -p1 -s < $VROOT/$d/patch.diff) || { echo "$name patch-failed"; rm -rf $wt; return; }
  res=""
  for p in $prop $extra; do
    out=$(SWEETPEA_REPO=$wt timeout 1500 ./check $p 2>&1 | grep -E "^(OK|VIOLATION|INFRA)" | tail -1 | cut -c1-160)
    res="$res | $p: $out"
    case "$out" in VIOLATION*) break;; esac
  done
  echo "$name$res"
  rm -rf $wt
}
export -f one
ls -d seeded/*${filt}*/ | sed 's#/$##' | xargs -P $par -I{} bash -c "one {} $scratch"
rm -rf $scratch
