DEFAULT_NA = "not claimed yet: the check for this property has not been built in this round (staged plan in DESIGN.md section 10); the technique applies"
NOT_APPLICABLE = {}
NOTES = "All checks: ./check <id> --tier quick|thorough (cwd /verif). Fix commits and known findings: known_findings.json, DESIGN.md section 8."
_T = "Lean 4 proof over hand-written model + differential correspondence"
_N = "Trusted: Lean kernel, axioms listed per theorem in the evidence, the hand-written model, the correspondence harness (bounded generator) and the driver's JSON/tokenizer glue, CPython, pycryptosat for oracles."
_D = "Trusted: Lean kernel and the axioms listed per theorem; SPModel.Spec (reference semantics = my reading of the documentation, restricted to the regions DESIGN.md 3.2 names as defined); the bounded design generator + boundary corpus of harness/i12_oracle.py; the SAT back ends return models of what they are given; hand-written models are tied to /repo only by the listed correspondences. Known findings are replayed from known_findings.json."
def _design(text, ref, extra=""):
    return {"text": text, "design_ref": ref, "note": _D + (" " + extra if extra else ""), "technique": "Lean 4 executable reference semantics + proved component theorems + differential correspondence"}
CHECKS = {
    "C01": _design("Every sequence returned by IterateSATGen/CMSGen/UniGen for generated designs (boundary corpus + random; all block combinators) is judged by the Lean reference semantics Spec.valid. Proved in Lean for all inputs: the run-length encodings (AtMost/AtLeast/ExactlyKInARow, ExactlyK) mean what the constraints say (C01.lean), cardinality requests (C10), Tseitin (C11), adders (C12); the run-length compile model is tied to constraint.py by exact correspondence (I8k). The composition of all constraint classes into one soundness theorem is not proved (partial).", "7 (C01-C03), 3.2"),
    "C02": _design("Exhausted IterateSATGen multiset = Spec.validSeqs (enumerated in Lean) on generated designs with <= 250 solutions. Proved: the iterate-and-block loop over any sound and complete solver returns distinct solutions and all of them when it stops early (C09.lean), request/Tseitin/run-length encodings exact (C10, C11, C01). Composition partial as for C01.", "7 (C01-C03)"),
    "C03": _design("All models of build_cnf(block) are enumerated for generated designs; two models that agree on the trial variables must be identical. Proved: unique extension for every cardinality request (C10.assert_unique, combine_models), every Tseitin conversion (C11.tseitin_unique), every gate chain (C12.ext_exists_unique). The theorem assembling them over a whole backend request is not proved yet (partial).", "7 (C01-C03)"),
    "C04": _design("Every sequence RandomGen returns for generated designs is judged by Spec.valid. Proved: the unranking functions RandomGen builds candidates from are bijections with exact counts (C13). RandomGen's assembly of a sequence from components is not modelled (oracle only).", "7 (C04-C07)"),
    "C05": _design("The tree of all random choices of RandomGen's draw procedure is enumerated with a scripted randrange: distinct keys, equal path probabilities, count = candidate count; exhausted RandomGen = Spec.validSeqs without duplicates. Proved: C13 bijections. Draw procedure itself not modelled in Lean (oracle only); non-uniformity F15 is a known finding.", "7 (C04-C07)"),
    "C06": _design("Exhausted RandomGen multiset = Spec.validSeqs; reported solution count = number of solutions for designs without rejection. Proved: C13 counts and bijections.", "7 (C04-C07)"),
    "C07": _design("Exhausted IterateSATGen set = exhausted RandomGen set on generated designs, with no reference to Spec. Supported by the theorems of C01/C10/C11 (encoder side) and C13 (combinatoric side).", "7 (C04-C07)"),
    "C08": _design("Every accepted generated design is run through IterateSATGen, RandomGen, CMSGen and UniGen (UniGen in a child process); any escaping exception is a failure. Proved no-error facts: cardinality builders total on non-empty lists (C10.assert_total), unranking functions total below their count (C13 *_range). Errors inside C extensions and resource limits are observed only.", "7 (C08)"),
    "C09": _design("Request sizes 0, 1, available-1, available, available+5 on IterateSATGen, RandomGen, IterateGen: min(requested, available) returned, no solution twice (weights accounted for). Proved: iterate loop distinctness/exhaustiveness over any sound+complete solver (C09.lean), blocking clause excludes exactly one support assignment (C09.blocking_iff, C27.update_models).", "7 (C09)"),
    "C14": _design("Lean theorems about the model of block.py's variable numbering: every applicable (trial, factor, level) has its own variable in 1..variables_per_sample, every such variable is one, decode inverts encode (all block shapes); tied to block.py by exact correspondence on generated designs (I7) plus an implementation oracle incl. Gen.decode on one-hot assignments.", "7 (C14)"),
    "C15": _design("Derived factors with random tables: overlapping tables must be rejected at construction, uncovered windows must produce an error and no sequences, otherwise every returned sequence has the unique matching level on applicable trials (Spec). Corpus with explicit starts/strides/weighted dependencies.", "7 (C15)"),
    "C16": _design("block.trials_per_sample() = trial count Spec.geo computes from the documented rules, and every returned sequence of every strategy has that many entries, on generated designs and the boundary corpus.", "7 (C16)"),
    "C17": _design("sample_mismatch_experiment(s) == {} iff Spec.valid(s) on every valid sequence (Spec.validSeqs) and on perturbed ones. Proved: run-length semantics (C01.lean runs lemmas).", "7 (C17)"),
    "C18": _design("Two blocks sharing factor and constraint objects, built in both orders, compared with fresh-object builds (exhausted sets). Known finding F4.", "7 (C18)"),
    "C19": _design("Random call histories on one block object (all nine API functions, 0-2 continuous factors): block snapshot unchanged after every call, final synthesize_trials succeeds with the same columns and Spec-valid sequences.", "7 (C19)"),
    "C20": {"text": "Lean theorems about the model of the conversions (cell (t,j) of tuples/dicts/CSV rows is the t-th value of column j; hidden names filtered), tied to main.py by exact correspondence on random experiment dicts (missing keys, ragged columns), plus an oracle on synthesized experiments of generated designs incl. weighted uncrossed factors.", "design_ref": "7 (C20)", "note": _N, "technique": _T},
    "C21": {"text": "Lean theorems: the counting loop of tabulate_experiments equals filter/length and the table lists every combination once in product order; tied to main.py by correspondence on the parsed printed table; percentages compared numerically.", "design_ref": "7 (C21)", "note": _N + " Float formatting is not modelled.", "technique": _T},
    "C22": _design("Designs with continuous factors with logging CustomDistributions: one value per trial, ContinuousConstraint holds, dependents computed from the same trial, window values with NaN where undefined/skipped, discrete part Spec-valid. Proved: the window function (C22.lean windowVal_*).", "7 (C22)", "Floating point and distribution shapes are not covered."),
    "C23": _design("Weighted crossed levels: exhausted sets judged by Spec (multiplicities = product of weights, prints distinct); weighted uncrossed factor vs its copy-expanded twin: equal multisets.", "7 (C23)"),
    "C24": _design("Both sides of each documented combinator equivalence built from fresh objects and exhausted; multisets must be equal. Known findings F13, F28.", "7 (C24)"),
    "C25": _design("Nest(outer, inner) of generated leaves: length product, each group valid for the inner block alone (Spec), group sequence valid for the outer block alone, solution count = outer x inner^outerTrials.", "7 (C25, C26)"),
    "C26": _design("Repeat with the same constraint given to the block vs to the Repeat: every repetition valid for the block alone / whole sequence satisfies the constraint; solution counts solutions(b)^r vs Spec.validSeqs.", "7 (C25, C26)"),
    "C29": _design("SMGen in a child process on generated designs: documented refusal (Exception '...not supported...') or Spec-valid sequences. Timer interleavings of the search are not exhibited by any model. Known finding F6.", "7 (C29)"),
    "C11": {
        "text": "Lean 4 theorems about the model of logic.py: Tseitin (models on the original variables, unique extension, fresh range, cnf_to_json shape), naive (equivalent, no new variables) and switching (partial correctness of the fuelled model) for all formulas; tied to logic.py by tree-exact correspondence of the three conversions and cnf_to_json on exhaustive small + random formulas, plus a truth-table oracle on the implementation.",
        "design_ref": "7 (C11)", "note": _N + " str() of a namedtuple of ints is an injective cache key; list.sort is stable. Switching: termination not proved (fuel).",
        "technique": _T,
    },
    "C13": {
        "text": "Lean 4 theorems about the model of combinatorics.py: each unranking function is range-correct, injective below N and surjective onto its kind of arrangement, N being the matching count; tied to combinatorics.py by value-exact correspondence (exhaustive small parameters incl. one-past-the-end indices, random large, shared memo tables) and a brute-force bijection oracle.",
        "design_ref": "7 (C13)", "note": _N + " The continuation machine with its memo table is tied to the model's clean recursion by correspondence only. Theorems still open are listed per run in coverage.theorems / audit_problems.",
        "technique": _T,
    },
    "C27": {
        "text": "Lean 4 theorems about the token-level model of the DIMACS/unigen printers, the three parsers, update_file and the solver-output parser (parse∘print = id, header counts, the added clause excludes exactly the previous solution), tied to the code by byte-exact text correspondence and parser-output correspondence, plus an implementation oracle that enumerates models before/after update_file.",
        "design_ref": "7 (C27)", "note": _N + " str.split/int()/str() are trusted (tokenizer/renderer checked per instance).",
        "technique": _T,
    },
    "C28": {
        "text": "Lean 4 theorems: OPB rows mean clause satisfaction / the cardinality request / exclusion of the previous solution, and (through C10.combine_models) the OPB export accepts the same assignments as the SAT encoding; tied to the code by byte-exact OPB text correspondence and an independent OPB evaluator vs the SAT encoding over all assignments.",
        "design_ref": "7 (C28)", "note": _N + " Gurobi is absent: OPB text has its standard pseudo-Boolean meaning.",
        "technique": _T,
    },
    "C12": {
        "text": "Lean 4 theorems about the model of the adder / pop-count builders (every gate is a definitional extension; ripple and pop-count outputs equal the sums, for all widths and assignments), tied to core/cnf.py by clause-exact correspondence, plus an exhaustive small-width oracle on the implementation.",
        "design_ref": "7 (C12), 3.3, 4",
        "note": "Trusted: Lean kernel, axioms listed per theorem in the evidence, the hand-written model and the correspondence harness (bounded generator), pycryptosat for the oracle, math.ceil(math.log(n,2)) = exact ceil-log2.",
        "technique": "Lean 4 proof over hand-written model + differential correspondence",
    },
    "C10": {
        "text": "Lean 4 theorems about the model of assert_k_of_n / inequality assertions / combine_cnf_with_requests (satisfiable extension exists iff count relates to k, and is unique), tied to core/cnf.py by clause-exact correspondence, plus an exhaustive oracle (all assignments, n<=6..8) on the implementation.",
        "design_ref": "7 (C10), 3.3, 4",
        "note": "Trusted: as for C12. Theorem coverage is reported per run in coverage.theorems (partial theorems carry their guard).",
        "technique": "Lean 4 proof over hand-written model + differential correspondence",
    },
}
