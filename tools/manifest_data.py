DEFAULT_NA = "not claimed yet: the check for this property has not been built in this round (staged plan in DESIGN.md section 10); the technique applies"
NOT_APPLICABLE = {}
NOTES = "All checks: ./check <id> --tier quick|thorough (cwd /verif). Fix commits and known findings: known_findings.json, DESIGN.md section 8."
CHECKS = {
    "C12": {
        "text": "Lean 4 theorems about the model of the adder / pop-count builders (every gate is a definitional extension; ripple and pop-count outputs equal the sums, for all widths and assignments), tied to core/cnf.py by clause-exact correspondence, plus an exhaustive small-width oracle on the implementation.",
        "design_ref": "7 (C12), 3.3, 4",
        "note": "Trusted: Lean kernel, axioms listed per theorem in the evidence, the hand-written model and the correspondence harness (bounded generator), pycryptosat for the oracle, math.ceil(math.log(n,2)) = exact ceil-log2.",
        "technique": "Lean 4 proof over hand-written model + differential correspondence",
    },
    "C10": {
        "text": "Lean 4 theorems about the model of assert_k_of_n / inequality assertions / combine_cnf_with_requests (satisfiable extension exists iff count relates to k, and is unique), tied to core/cnf.py by clause-exact correspondence, plus an exhaustive oracle (all assignments, n<=6..8) on the implementation.",
        "design_ref": "7 (C10), 3.3, 4",
        "note": "Trusted: as for C12. Theorem coverage is reported per run in coverage.theorems (partial theorems carry their guard).",
        "technique": "Lean 4 proof over hand-written model + differential correspondence",
    },
}
