DEFAULT_NA = "not claimed yet: the check for this property has not been built in this round (staged plan in DESIGN.md section 10); the technique applies"
NOT_APPLICABLE = {}
NOTES = "All checks: ./check <id> --tier quick|thorough (cwd /verif). Fix commits and known findings: known_findings.json, DESIGN.md section 8."
_T = "Lean 4 proof over hand-written model + differential correspondence"
_N = "Trusted: Lean kernel, axioms listed per theorem in the evidence, the hand-written model, the correspondence harness (bounded generator) and the driver's JSON/tokenizer glue, CPython, pycryptosat for oracles."
CHECKS = {
    "C11": {
        "text": "Lean 4 theorems about the model of logic.py: Tseitin (models on the original variables, unique extension, fresh range, cnf_to_json shape), naive (equivalent, no new variables) and switching (partial correctness of the fuelled model) for all formulas; tied to logic.py by tree-exact correspondence of the three conversions and cnf_to_json on exhaustive small + random formulas, plus a truth-table oracle on the implementation.",
        "design_ref": "7 (C11)", "note": _N + " str() of a namedtuple of ints is an injective cache key; list.sort is stable. Switching: termination not proved (fuel).",
        "technique": _T,
    },
    "C13": {
        "text": "Lean 4 theorems about the model of combinatorics.py: each unranking function is range-correct, injective below N and surjective onto its kind of arrangement, N being the matching count; tied to combinatorics.py by value-exact correspondence (exhaustive small parameters incl. one-past-the-end indices, random large, shared memo tables) and a brute-force bijection oracle.",
        "design_ref": "7 (C13)", "note": _N + " The continuation machine with its memo table is tied to the model's clean recursion by correspondence only. Theorems still open are listed per run in coverage.theorems / audit_problems.",
        "technique": _T,
    },
    "C27": {
        "text": "Lean 4 theorems about the token-level model of the DIMACS/unigen printers, the three parsers, update_file and the solver-output parser (parse∘print = id, header counts, the added clause excludes exactly the previous solution), tied to the code by byte-exact text correspondence and parser-output correspondence, plus an implementation oracle that enumerates models before/after update_file.",
        "design_ref": "7 (C27)", "note": _N + " str.split/int()/str() are trusted (tokenizer/renderer checked per instance).",
        "technique": _T,
    },
    "C28": {
        "text": "Lean 4 theorems: OPB rows mean clause satisfaction / the cardinality request / exclusion of the previous solution, and (through C10.combine_models) the OPB export accepts the same assignments as the SAT encoding; tied to the code by byte-exact OPB text correspondence and an independent OPB evaluator vs the SAT encoding over all assignments.",
        "design_ref": "7 (C28)", "note": _N + " Gurobi is absent: OPB text has its standard pseudo-Boolean meaning.",
        "technique": _T,
    },
    "C12": {
        "text": "Lean 4 theorems about the model of the adder / pop-count builders (every gate is a definitional extension; ripple and pop-count outputs equal the sums, for all widths and assignments), tied to core/cnf.py by clause-exact correspondence, plus an exhaustive small-width oracle on the implementation.",
        "design_ref": "7 (C12), 3.3, 4",
        "note": "Trusted: Lean kernel, axioms listed per theorem in the evidence, the hand-written model and the correspondence harness (bounded generator), pycryptosat for the oracle, math.ceil(math.log(n,2)) = exact ceil-log2.",
        "technique": "Lean 4 proof over hand-written model + differential correspondence",
    },
    "C10": {
        "text": "Lean 4 theorems about the model of assert_k_of_n / inequality assertions / combine_cnf_with_requests (satisfiable extension exists iff count relates to k, and is unique), tied to core/cnf.py by clause-exact correspondence, plus an exhaustive oracle (all assignments, n<=6..8) on the implementation.",
        "design_ref": "7 (C10), 3.3, 4",
        "note": "Trusted: as for C12. Theorem coverage is reported per run in coverage.theorems (partial theorems carry their guard).",
        "technique": "Lean 4 proof over hand-written model + differential correspondence",
    },
}
