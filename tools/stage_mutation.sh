#!/bin/bash
# usage: tools/stage_mutation.sh <name> <worktree> <property>   -- record a seeded change without touching /repo
name=$1; wt=$2; prop=$3
out=$(cd "$(dirname "$0")/.." && pwd)/seeded/$name; mkdir -p $out
git -C $wt diff -- sweetpea > $out/patch.diff
cp $wt/demo_mutation.py $out/demo_mutation.py 2>/dev/null
cp $wt/mutation_notes.md $out/notes.md 2>/dev/null
[ -f $out/meta.json ] || python3 -c "import json; json.dump({'breaks_property':'$prop','needs_to_manifest':'see notes.md','what_i_ran':['full test suite in the scratch worktree with the change (811 passed, reported by the agent)','demo_mutation.py with the change (exit 1) and without it (exit 0)','tools/rerun_seeded.sh (scratch copy of /repo with the patch, ./check $prop)'],'check_result':'pending'}, open('$out/meta.json','w'), indent=1)"
echo staged $name
