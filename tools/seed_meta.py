#!/usr/bin/env python3
"""tools/seed_meta.py <name> <property> <needs> <detected-by> <result-line>"""
import json, sys, os
name, prop, needs, detected, result = sys.argv[1:6]
d = "/verif/seeded/" + name
meta = {"breaks_property": prop, "needs_to_manifest": needs,
        "what_i_ran": ["full test suite in the scratch worktree with the change (811 passed)",
                       "demo_mutation.py with the change (exit 1) and without it (exit 0)",
                       "git -C /repo apply patch.diff; ./check %s --tier quick; git -C /repo checkout -- ." % detected],
        "check_result": result}
json.dump(meta, open(os.path.join(d, "meta.json"), "w"), indent=1)
print("wrote", d)
